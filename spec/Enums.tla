------------------------------- MODULE Enums -------------------------------
(***************************************************************************)
(* The enumerated fields of RFC 2661 as the crate names them.  Each table  *)
(* is a sequence of <<code, name>> pairs; everything else is derived.      *)
(* RFC 2661 s3.2 (message types), s4.4.2 (result / error codes),           *)
(* s4.4.5 (proxy authen type).                                             *)
(***************************************************************************)
EXTENDS Naturals, Sequences, FiniteSets

MessageTypeTable == <<
  <<1,  "StartControlConnectionRequest">>,
  <<2,  "StartControlConnectionReply">>,
  <<3,  "StartControlConnectionConnected">>,
  <<4,  "StopControlConnectionNotification">>,
  <<6,  "Hello">>,
  <<7,  "OutgoingCallRequest">>,
  <<8,  "OutgoingCallReply">>,
  <<9,  "OutgoingCallConnected">>,
  <<10, "IncomingCallRequest">>,
  <<11, "IncomingCallReply">>,
  <<12, "IncomingCallConnected">>,
  <<14, "CallDisconnectNotify">>,
  <<15, "WanErrorNotify">>,
  <<16, "SetLinkInfo">> >>

ErrorTypeTable == <<
  <<0, "Ok">>,
  <<1, "NoControlConnectionExists">>,
  <<2, "WrongLength">>,
  <<3, "OutOfRangeOrBadReserved">>,
  <<4, "InsufficientResources">>,
  <<5, "InvalidSessionId">>,
  <<6, "Generic">>,
  <<7, "TryAnotherDestination">>,
  <<8, "UnknownMandatoryAvp">> >>

ProxyAuthenTypeTable == <<
  <<0, "Reserved">>,
  <<1, "TextualUserNamePasswordExchange">>,
  <<2, "PppChap">>,
  <<3, "PppPap">>,
  <<4, "NoAuthentication">>,
  <<5, "MicrosoftChapVersion1">> >>

StopCcnTable == <<
  <<0, "Reserved">>,
  <<1, "GeneralRequestToClearControlConnection">>,
  <<2, "GeneralError">>,
  <<3, "ControlChannelAlreadyExists">>,
  <<4, "RequesterNotAuthorizedToEstablishControlChannel">>,
  <<5, "RequesterProtocolVersionUnsupported">>,
  <<6, "RequesterShutdown">>,
  <<7, "FsmError">> >>

CdnTable == <<
  <<0,  "Reserved">>,
  <<1,  "CallDisconnectedLossOfCarrier">>,
  <<2,  "CallDisconnectedWithErrorCode">>,
  <<3,  "CallDisconnectedAdministrative">>,
  <<4,  "CallFailedTemporarilyUnavailable">>,
  <<5,  "CallFailedPermanentlyUnavailable">>,
  <<6,  "InvalidDestination">>,
  <<7,  "CallFailedNoCarrier">>,
  <<8,  "CallFailedBusySignal">>,
  <<9,  "CallFailedNoDialTone">>,
  <<10, "CallEstablishTimeout">>,
  <<11, "CallNoFramingDetected">> >>

EnumTable(tab) ==
  CASE tab = "MessageType"     -> MessageTypeTable
    [] tab = "ErrorType"       -> ErrorTypeTable
    [] tab = "ProxyAuthenType" -> ProxyAuthenTypeTable
    [] tab = "StopCcn"         -> StopCcnTable
    [] tab = "Cdn"             -> CdnTable

EnumTableNames == {"MessageType", "ErrorType", "ProxyAuthenType", "StopCcn", "Cdn"}

Codes(tab) == { EnumTable(tab)[i][1] : i \in 1..Len(EnumTable(tab)) }
Names(tab) == { EnumTable(tab)[i][2] : i \in 1..Len(EnumTable(tab)) }

HasCode(tab, c) == \E i \in 1..Len(EnumTable(tab)) : EnumTable(tab)[i][1] = c
HasName(tab, n) == \E i \in 1..Len(EnumTable(tab)) : EnumTable(tab)[i][2] = n

NameOf(tab, c) ==
  LET t == EnumTable(tab) IN t[CHOOSE i \in 1..Len(t) : t[i][1] = c][2]
CodeOf(tab, n) ==
  LET t == EnumTable(tab) IN t[CHOOSE i \in 1..Len(t) : t[i][2] = n][1]

(***************************************************************************)
(* C16 on the specification itself: every table is a bijection between its *)
(* code points and its names, and the code points are the RFC's.           *)
(***************************************************************************)
EnumBijective(tab) ==
  LET t == EnumTable(tab) IN
    /\ Cardinality(Codes(tab)) = Len(t)
    /\ Cardinality(Names(tab)) = Len(t)
    /\ \A c \in Codes(tab) : CodeOf(tab, NameOf(tab, c)) = c
    /\ \A n \in Names(tab) : NameOf(tab, CodeOf(tab, n)) = n

ASSUME \A tab \in EnumTableNames : EnumBijective(tab)
ASSUME Codes("MessageType") = (1..4) \cup (6..12) \cup (14..16)
ASSUME Codes("ErrorType") = 0..8
ASSUME Codes("ProxyAuthenType") = 0..5
ASSUME Codes("StopCcn") = 0..7
ASSUME Codes("Cdn") = 0..11
=============================================================================
