----------------------------- MODULE LenMachine -----------------------------
(***************************************************************************)
(* The length arithmetic of the decoder, with the octet VALUES forgotten:  *)
(* an integer-only abstraction of Decoder in which every wire length field *)
(* is an arbitrary natural number of its width and the input may be of ANY *)
(* length.  Variables are the octets left in the three nested readers      *)
(* (message, AVP region, AVP payload), the length fields last read, and    *)
(* the ghost pair (req, reqrem): the size of the unchecked request the     *)
(* last step issued and the octets that remained when it was issued.       *)
(*                                                                         *)
(*   Safe == req <= reqrem /\ nothing negative                             *)
(*                                                                         *)
(* is the design-level content of C01 (no underflow) and C02 (every        *)
(* request fits) for inputs of unbounded length.  It is checked            *)
(*   - by TLC for all inputs up to MaxRem octets (MCLenMachine.cfg),       *)
(*   - by Apalache as an INDUCTIVE invariant IndInv (no bound on the input *)
(*     length): Init => IndInv, IndInv /\ Next => IndInv', IndInv => Safe, *)
(* and Decoder refines it: MCDecoder checks on every explored step that    *)
(* the abstraction of the step is a LenMachine step (RefinesLen).          *)
(* Guards can be switched off (constant LOff) to show Safe is not vacuous. *)
(***************************************************************************)
EXTENDS Integers

CONSTANTS
  \* @type: Int;
  MaxRem,     \* bound on the input length for TLC (ignored by the inductive check)
  \* @type: Int;
  FieldMax,   \* wire length fields range over 0..FieldMax and the maximum of their width (TLC: small; Apalache: 65535)
  \* @type: Set(Str);
  LOff        \* guards switched off (fault seeding); {} = the real design

VARIABLES
  \* @type: Str;
  pc,
  \* @type: Int;
  rem,        \* octets left in the message reader
  \* @type: Int;
  arem,       \* octets left in the AVP region reader
  \* @type: Int;
  prem,       \* octets left in the AVP payload reader
  \* @type: Int;
  len,        \* control Length / data Length field
  \* @type: Int;
  alen,       \* AVP length field (10 bits)
  \* @type: Int;
  need,       \* fixed octets the current per-type reader still has to read unconditionally
  \* @type: Int;
  ops,        \* operations of the current field program still to run
  \* @type: Int;
  minl,       \* the minimum payload length its single length check compares with (need, or need + 1)
  \* @type: Int;
  hdr,        \* data header octets after the flags (4 .. 12)
  \* @type: Bool;
  hasL,
  \* @type: Bool;
  hasO,
  \* @type: Int;
  osz,        \* offset size field
  \* @type: Int;
  used,       \* octets of the data message consumed so far, counted from the first flag octet
  \* @type: Int;
  req,
  \* @type: Int;
  reqrem

vars == <<pc, rem, arem, prem, len, alen, need, ops, minl, hdr, hasL, hasO, osz, used, req, reqrem>>

LOn(g) == g \notin LOff

Pcs == {"flags", "post_flags", "c_hdr", "c_len", "c_carve", "a_hdr", "a_len", "a_skip", "a_bytes", "a_sub",
        "a_min", "a_read", "d_min", "d_fields", "d_off", "d_skip", "d_ext", "d_pay", "done"}

U16 == IF FieldMax >= 65535 THEN 0..65535 ELSE (0..FieldMax) \cup {65535}
AvpLens == IF FieldMax >= 1023 THEN 0..1023 ELSE (0..FieldMax) \cup {1023}
MinLens == 0..26            \* the largest minimum payload (Call Errors)
OpsRange == 0..9            \* the longest field program has 7 operations
Widths == {1, 2, 4, 8, 16}  \* fixed-width field sizes

Init ==
  /\ pc = "flags" /\ rem \in 0..MaxRem
  /\ arem = 0 /\ prem = 0 /\ len = 0 /\ alen = 0 /\ need = 0 /\ ops = 0 /\ minl = 0 /\ hdr = 4 /\ hasL = FALSE /\ hasO = FALSE
  /\ osz = 0 /\ used = 0 /\ req = 0 /\ reqrem = 0

Issue(n, r) == req' = n /\ reqrem' = r
Quiet == req' = 0 /\ reqrem' = 0
Done == pc' = "done" /\ Quiet

---------------------------------------------------------------------------
Flags ==
  /\ pc = "flags"
  /\ IF LOn("Flags2") /\ rem < 2
       THEN Done /\ UNCHANGED <<rem, arem, prem, len, alen, need, ops, minl, hdr, hasL, hasO, osz, used>>
       ELSE /\ Issue(2, rem) /\ rem' = rem - 2 /\ used' = 2 /\ pc' = "post_flags"
            /\ UNCHANGED <<arem, prem, len, alen, need, ops, minl, hdr, hasL, hasO, osz>>

\* version / reserved / dispatch / unused-field / L,S-bit checks: no reader activity; they
\* lead to the control header, the data header, or a rejection
PostFlags ==
  /\ pc = "post_flags" /\ Quiet /\ pc' \in {"post_flags", "c_hdr", "d_min", "done"}
  /\ UNCHANGED <<rem, arem, prem, len, alen, need, ops, minl, hdr, hasL, hasO, osz, used>>

\* a step that touches no reader and stays where it is (bookkeeping of the real machine)
Idle ==
  /\ Quiet /\ UNCHANGED <<pc, rem, arem, prem, len, alen, need, ops, minl, hdr, hasL, hasO, osz, used>>

CtlHeader ==
  /\ pc = "c_hdr"
  /\ IF LOn("CtlHdr10") /\ rem < 10
       THEN Done /\ UNCHANGED <<rem, arem, prem, len, alen, need, ops, minl, hdr, hasL, hasO, osz, used>>
       ELSE /\ Issue(10, rem) /\ rem' = rem - 10 /\ len' \in U16 /\ pc' = "c_len"
            /\ UNCHANGED <<arem, prem, alen, need, ops, minl, hdr, hasL, hasO, osz, used>>

CtlLength ==
  /\ pc = "c_len" /\ Quiet
  /\ IF (LOn("CtlLen12") /\ len < 12) \/ (LOn("CtlLenFit") /\ len > rem + 12)
       THEN pc' = "done" ELSE pc' = "c_carve"
  /\ UNCHANGED <<rem, arem, prem, len, alen, need, ops, minl, hdr, hasL, hasO, osz, used>>

CtlCarve ==
  /\ pc = "c_carve"
  /\ Issue(len - 12, rem) /\ arem' = len - 12 /\ rem' = rem - (len - 12) /\ pc' = "a_hdr"
  /\ UNCHANGED <<prem, len, alen, need, ops, minl, hdr, hasL, hasO, osz, used>>

AvpHeader ==
  /\ pc = "a_hdr"
  /\ IF arem < 6
       THEN Done /\ UNCHANGED <<rem, arem, prem, len, alen, need, ops, minl, hdr, hasL, hasO, osz, used>>
       ELSE /\ Issue(6, arem) /\ arem' = arem - 6 /\ alen' \in AvpLens /\ pc' = "a_len"
            /\ UNCHANGED <<rem, prem, len, need, ops, minl, hdr, hasL, hasO, osz, used>>

AvpLength ==
  /\ pc = "a_len" /\ Quiet
  /\ IF (LOn("AvpLen6") /\ alen < 6) \/ (LOn("AvpFit") /\ alen - 6 > arem)
       THEN pc' = "done" ELSE pc' \in {"a_skip", "a_bytes", "a_sub"}      \* vendor-specific / hidden / ordinary
  /\ UNCHANGED <<rem, arem, prem, len, alen, need, ops, minl, hdr, hasL, hasO, osz, used>>

AvpSkip ==
  /\ pc = "a_skip"
  /\ Issue(alen - 6, arem) /\ arem' = arem - (alen - 6) /\ pc' = "a_hdr"
  /\ UNCHANGED <<rem, prem, len, alen, need, ops, minl, hdr, hasL, hasO, osz, used>>

AvpBytes ==        \* bytes() is a checked operation: no request is issued
  /\ pc = "a_bytes" /\ Quiet
  /\ arem' = arem - (alen - 6) /\ pc' = "a_hdr"
  /\ UNCHANGED <<rem, prem, len, alen, need, ops, minl, hdr, hasL, hasO, osz, used>>

AvpSub ==
  /\ pc = "a_sub"
  /\ Issue(alen - 6, arem) /\ prem' = alen - 6 /\ arem' = arem - (alen - 6)
  /\ need' \in MinLens /\ ops' \in OpsRange /\ minl' \in {need', need' + 1}                   \* + 1: a non-empty rest / text part
  /\ pc' \in {"a_min", "a_hdr"}                                           \* known type / unknown type
  /\ UNCHANGED <<rem, len, alen, hdr, hasL, hasO, osz, used>>

AvpMin ==
  /\ pc = "a_min" /\ Quiet
  /\ IF LOn("AvpMin") /\ prem < minl
       THEN pc' = "a_hdr" /\ need' \in MinLens /\ ops' \in OpsRange   \* (what is left to read is meaningless from here on)
       ELSE pc' = "a_read" /\ UNCHANGED <<need, ops>>
  /\ UNCHANGED <<rem, arem, prem, len, alen, minl, hdr, hasL, hasO, osz, used>>

\* one operation of the field program (every operation that stays in the AVP uses up one of `ops`)
AvpRead ==
  /\ pc = "a_read"
  /\ \/ \* a fixed-width field or reserved skip of k octets: read; an enumerated code may be rejected
        \E k \in MinLens :
          /\ k >= 1 /\ k <= need /\ ops >= 1 /\ Issue(k, prem)
          /\ \/ prem' = prem - k /\ need' = need - k /\ ops' = ops - 1 /\ pc' = "a_read"
             \/ UNCHANGED <<prem, need, ops>> /\ pc' = "a_hdr"
     \/ \* all operations done: the AVP is complete
        /\ need = 0 /\ ops = 0 /\ Quiet /\ pc' = "a_hdr" /\ UNCHANGED <<prem, need, ops>>
     \/ \* ... or a rest / text tail taken with the CHECKED bytes(): all that remains, or an error
        /\ need = 0 /\ ops >= 1 /\ Quiet /\ UNCHANGED need
        /\ \/ prem' = 0 /\ ops' = ops - 1 /\ pc' = "a_read"
           \/ UNCHANGED <<prem, ops>> /\ pc' = "a_hdr"
     \/ \* ... or Result Code's optional error part: absent when fewer than two octets remain
        /\ need = 0 /\ ops >= 1 /\ LOn("ErrTail2") /\ prem < 2 /\ Quiet /\ pc' = "a_read" /\ ops' = ops - 1
        /\ UNCHANGED <<prem, need>>
     \/ \* ... else its two-octet error type is read (then text by bytes(), or an error)
        /\ need = 0 /\ ops >= 1 /\ (LOn("ErrTail2") => prem >= 2) /\ Issue(2, prem) /\ UNCHANGED need
        /\ \/ prem' \in {prem - 2, 0} /\ ops' = ops - 1 /\ pc' = "a_read"
           \/ UNCHANGED <<prem, ops>> /\ pc' = "a_hdr"
  /\ UNCHANGED <<rem, arem, len, alen, minl, hdr, hasL, hasO, osz, used>>

DataMin ==
  /\ pc = "d_min" /\ Quiet
  /\ \E l, s, o \in BOOLEAN :
       LET h == 4 + (IF l THEN 2 ELSE 0) + (IF s THEN 4 ELSE 0) + (IF o THEN 2 ELSE 0) IN
       IF LOn("DataMin") /\ rem < h
         THEN pc' = "done" /\ UNCHANGED <<hdr, hasL, hasO>>
         ELSE pc' = "d_fields" /\ hdr' = h /\ hasL' = l /\ hasO' = o
  /\ UNCHANGED <<rem, arem, prem, len, alen, need, ops, minl, osz, used>>

DataFields ==
  /\ pc = "d_fields"
  /\ LET n == hdr - (IF hasO THEN 2 ELSE 0) IN
       /\ Issue(n, rem) /\ rem' = rem - n /\ used' = used + n
  /\ len' \in U16 /\ pc' = "d_off"
  /\ UNCHANGED <<arem, prem, alen, need, ops, minl, hdr, hasL, hasO, osz>>

DataOffset ==
  /\ pc = "d_off"
  /\ IF hasO
       THEN Issue(2, rem) /\ rem' = rem - 2 /\ used' = used + 2 /\ osz' \in U16 /\ pc' = "d_skip"
       ELSE Quiet /\ pc' = "d_ext" /\ UNCHANGED <<rem, used, osz>>
  /\ UNCHANGED <<arem, prem, len, alen, need, ops, minl, hdr, hasL, hasO>>

DataSkip ==
  /\ pc = "d_skip"
  /\ IF LOn("DataOffsetFit") /\ osz > rem
       THEN Done /\ UNCHANGED <<rem, used>>
       ELSE Issue(osz, rem) /\ rem' = rem - osz /\ used' = used + osz /\ pc' = "d_ext"
  /\ UNCHANGED <<arem, prem, len, alen, need, ops, minl, hdr, hasL, hasO, osz>>

DataExtent ==      \* payload extent = Length - octets consumed so far; an empty payload is rejected too
  /\ pc = "d_ext" /\ Quiet
  /\ IF hasL /\ ((LOn("DataLenMin") /\ len < used) \/ (LOn("DataLenFit") /\ len - used > rem))
       THEN pc' = "done" ELSE pc' \in {"d_pay", "done"}
  /\ UNCHANGED <<rem, arem, prem, len, alen, need, ops, minl, hdr, hasL, hasO, osz, used>>

DataPayload ==     \* the payload is taken with the checked bytes(); len - used must not underflow (Safe)
  /\ pc = "d_pay" /\ Quiet
  /\ IF hasL THEN rem' = rem - (len - used) /\ used' = len
             ELSE rem' = 0 /\ used' = used + rem
  /\ pc' = "done"
  /\ UNCHANGED <<arem, prem, len, alen, need, ops, minl, hdr, hasL, hasO, osz>>

Next ==
  \/ Flags \/ PostFlags \/ Idle \/ CtlHeader \/ CtlLength \/ CtlCarve
  \/ AvpHeader \/ AvpLength \/ AvpSkip \/ AvpBytes \/ AvpSub \/ AvpMin \/ AvpRead
  \/ DataMin \/ DataFields \/ DataOffset \/ DataSkip \/ DataExtent \/ DataPayload

Spec == Init /\ [][Next]_vars

---------------------------------------------------------------------------
\* C01 / C02 at the design level
Safe ==
  /\ req >= 0 /\ req <= reqrem
  /\ rem >= 0 /\ arem >= 0 /\ prem >= 0
  /\ (pc = "d_pay" /\ hasL => len >= used)          \* the subtraction Length - consumed does not underflow

TypeOK ==
  /\ pc \in Pcs
  /\ rem \in Int /\ arem \in Int /\ prem \in Int /\ len \in U16 /\ alen \in AvpLens
  /\ need \in MinLens /\ ops \in OpsRange /\ minl \in 0..27 /\ hdr \in 4..12 /\ hasL \in BOOLEAN /\ hasO \in BOOLEAN
  /\ osz \in U16 /\ used \in Int /\ req \in Int /\ reqrem \in Int

\* the inductive invariant: Safe plus what each program counter has already established
IndInv ==
  /\ TypeOK /\ Safe
  /\ used >= 0
  /\ (pc = "c_carve" => len >= 12 /\ len - 12 <= rem)
  /\ (pc \in {"a_skip", "a_bytes", "a_sub"} => alen >= 6 /\ alen - 6 <= arem)
  /\ (pc = "a_min" => need <= minl)
  /\ (pc = "a_read" => need <= prem)
  /\ (pc = "d_fields" => hdr <= rem)
  /\ (pc = "d_off" /\ hasO => rem >= 2)
  /\ (pc = "d_pay" /\ hasL => len >= used /\ len - used <= rem)

---------------------------------------------------------------------------
\* Termination for inputs of ANY length (C01 "never fails to terminate"): a lexicographic rank
\* <<phase, octets left in the AVP region, position inside one iteration>> of natural numbers that
\* every step strictly decreases -- except bookkeeping steps that leave the abstract state where it is,
\* of which the Decoder machine takes at most a fixed number in a row (MCDecoder!IdleAdvances).
LoopPcs == {"a_hdr", "a_len", "a_skip", "a_bytes", "a_sub", "a_min", "a_read"}
Phase(p) == IF p = "done" THEN 0 ELSE IF p \in LoopPcs THEN 1 ELSE 2
\* inside the AVP loop the octets left in the region never grow, and the step that leaves a_hdr takes 6 of them
LoopOctets(p, a) == IF p \in LoopPcs THEN a ELSE 0
PcRank(p, o) ==
  CASE p = "flags" -> 9 [] p = "post_flags" -> 8
    [] p = "c_hdr" -> 7 [] p = "c_len" -> 6 [] p = "c_carve" -> 5
    [] p = "d_min" -> 7 [] p = "d_fields" -> 6 [] p = "d_off" -> 5 [] p = "d_skip" -> 4 [] p = "d_ext" -> 3 [] p = "d_pay" -> 2
    [] p = "a_len" -> 50 [] p \in {"a_skip", "a_bytes", "a_sub"} -> 40 [] p = "a_min" -> 30
    [] p = "a_read" -> 10 + o [] p = "a_hdr" -> 5
    [] OTHER -> 0
LexLess(p1, a1, r1, p2, a2, r2) == p1 < p2 \/ (p1 = p2 /\ (a1 < a2 \/ (a1 = a2 /\ r1 < r2)))
Progress ==
  \/ pc' = pc /\ rem' = rem /\ arem' = arem /\ prem' = prem /\ need' = need /\ ops' = ops     \* bookkeeping
  \/ LexLess(Phase(pc'), LoopOctets(pc', arem'), PcRank(pc', ops'), Phase(pc), LoopOctets(pc, arem), PcRank(pc, ops))
ProgressProp == [][Progress]_vars

\* for Apalache: any state satisfying IndInv as initial state; constants
IndInit == IndInv
ConstInit == MaxRem = 48 /\ FieldMax = 65535 /\ LOff = {}
ConstInitNoAvpMin == MaxRem = 48 /\ FieldMax = 65535 /\ LOff = {"AvpMin"}
=============================================================================
