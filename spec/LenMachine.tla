----------------------------- MODULE LenMachine -----------------------------
(***************************************************************************)
(* The length arithmetic of the decoder, with the octet VALUES forgotten:  *)
(* an integer-only abstraction of Decoder in which every wire length field *)
(* is an arbitrary natural number of its width and the input may be of ANY *)
(* length.  Variables are the octets left in the three nested readers      *)
(* (message, AVP region, AVP payload), the length fields last read, and    *)
(* the ghost pair (req, reqrem): the size of the unchecked request the     *)
(* last step issued and the octets that remained when it was issued.       *)
(*                                                                         *)
(*   Safe == req <= reqrem /\ nothing negative                             *)
(*                                                                         *)
(* is the design-level content of C01 (no underflow) and C02 (every        *)
(* request fits) for inputs of unbounded length.  It is checked            *)
(*   - by TLC for all inputs up to MaxRem octets (MCLenMachine.cfg),       *)
(*   - by Apalache as an INDUCTIVE invariant IndInv (no bound on the input *)
(*     length): Init => IndInv, IndInv /\ Next => IndInv', IndInv => Safe, *)
(* and Decoder refines it: MCDecoder checks on every explored step that    *)
(* the abstraction of the step is a LenMachine step (RefinesLen).          *)
(* Guards can be switched off (constant LOff) to show Safe is not vacuous. *)
(***************************************************************************)
EXTENDS Integers

CONSTANTS
  \* @type: Int;
  MaxRem,     \* bound on the input length for TLC (ignored by the inductive check)
  \* @type: Int;
  FieldMax,   \* wire length fields range over 0..FieldMax and the maximum of their width (TLC: small; Apalache: 65535)
  \* @type: Set(Str);
  LOff        \* guards switched off (fault seeding); {} = the real design

VARIABLES
  \* @type: Str;
  pc,
  \* @type: Int;
  rem,        \* octets left in the message reader
  \* @type: Int;
  arem,       \* octets left in the AVP region reader
  \* @type: Int;
  prem,       \* octets left in the AVP payload reader
  \* @type: Int;
  len,        \* control Length / data Length field
  \* @type: Int;
  alen,       \* AVP length field (10 bits)
  \* @type: Int;
  need,       \* fixed octets the current per-type reader still has to read unconditionally
  \* @type: Int;
  hdr,        \* data header octets after the flags (4 .. 12)
  \* @type: Bool;
  hasL,
  \* @type: Bool;
  hasO,
  \* @type: Int;
  osz,        \* offset size field
  \* @type: Int;
  used,       \* octets of the data message consumed so far, counted from the first flag octet
  \* @type: Int;
  req,
  \* @type: Int;
  reqrem

vars == <<pc, rem, arem, prem, len, alen, need, hdr, hasL, hasO, osz, used, req, reqrem>>

LOn(g) == g \notin LOff

Pcs == {"flags", "c_hdr", "c_len", "c_carve", "a_hdr", "a_len", "a_skip", "a_bytes", "a_sub",
        "a_min", "a_read", "a_tail", "d_min", "d_fields", "d_off", "d_skip", "d_ext", "d_pay", "done"}

U16 == { x \in 0..65535 : x <= FieldMax \/ x = 65535 }
AvpLens == { x \in 0..1023 : x <= FieldMax \/ x = 1023 }
MinLens == 0..26            \* the largest minimum payload (Call Errors)
Widths == {1, 2, 4, 8, 16}  \* fixed-width field sizes

Init ==
  /\ pc = "flags" /\ rem \in 0..MaxRem
  /\ arem = 0 /\ prem = 0 /\ len = 0 /\ alen = 0 /\ need = 0 /\ hdr = 4 /\ hasL = FALSE /\ hasO = FALSE
  /\ osz = 0 /\ used = 0 /\ req = 0 /\ reqrem = 0

Issue(n, r) == req' = n /\ reqrem' = r
Quiet == req' = 0 /\ reqrem' = 0
Done == pc' = "done" /\ Quiet

---------------------------------------------------------------------------
Flags ==
  /\ pc = "flags"
  /\ IF LOn("Flags2") /\ rem < 2
       THEN Done /\ UNCHANGED <<rem, arem, prem, len, alen, need, hdr, hasL, hasO, osz, used>>
       ELSE /\ Issue(2, rem) /\ rem' = rem - 2 /\ used' = 2
            /\ pc' \in {"c_hdr", "d_min", "done"}          \* control / data / rejected by version, reserved, unused, L/S checks
            /\ UNCHANGED <<arem, prem, len, alen, need, hdr, hasL, hasO, osz>>

CtlHeader ==
  /\ pc = "c_hdr"
  /\ IF LOn("CtlHdr10") /\ rem < 10
       THEN Done /\ UNCHANGED <<rem, arem, prem, len, alen, need, hdr, hasL, hasO, osz, used>>
       ELSE /\ Issue(10, rem) /\ rem' = rem - 10 /\ len' \in U16 /\ pc' = "c_len"
            /\ UNCHANGED <<arem, prem, alen, need, hdr, hasL, hasO, osz, used>>

CtlLength ==
  /\ pc = "c_len" /\ Quiet
  /\ IF (LOn("CtlLen12") /\ len < 12) \/ (LOn("CtlLenFit") /\ len > rem + 12)
       THEN pc' = "done" ELSE pc' = "c_carve"
  /\ UNCHANGED <<rem, arem, prem, len, alen, need, hdr, hasL, hasO, osz, used>>

CtlCarve ==
  /\ pc = "c_carve"
  /\ Issue(len - 12, rem) /\ arem' = len - 12 /\ rem' = rem - (len - 12) /\ pc' = "a_hdr"
  /\ UNCHANGED <<prem, len, alen, need, hdr, hasL, hasO, osz, used>>

AvpHeader ==
  /\ pc = "a_hdr"
  /\ IF arem < 6
       THEN Done /\ UNCHANGED <<rem, arem, prem, len, alen, need, hdr, hasL, hasO, osz, used>>
       ELSE /\ Issue(6, arem) /\ arem' = arem - 6 /\ alen' \in AvpLens /\ pc' = "a_len"
            /\ UNCHANGED <<rem, prem, len, need, hdr, hasL, hasO, osz, used>>

AvpLength ==
  /\ pc = "a_len" /\ Quiet
  /\ IF (LOn("AvpLen6") /\ alen < 6) \/ (LOn("AvpFit") /\ alen - 6 > arem)
       THEN pc' = "done" ELSE pc' \in {"a_skip", "a_bytes", "a_sub"}      \* vendor-specific / hidden / ordinary
  /\ UNCHANGED <<rem, arem, prem, len, alen, need, hdr, hasL, hasO, osz, used>>

AvpSkip ==
  /\ pc = "a_skip"
  /\ Issue(alen - 6, arem) /\ arem' = arem - (alen - 6) /\ pc' = "a_hdr"
  /\ UNCHANGED <<rem, prem, len, alen, need, hdr, hasL, hasO, osz, used>>

AvpBytes ==        \* bytes() is a checked operation: no request is issued
  /\ pc = "a_bytes" /\ Quiet
  /\ arem' = arem - (alen - 6) /\ pc' = "a_hdr"
  /\ UNCHANGED <<rem, prem, len, alen, need, hdr, hasL, hasO, osz, used>>

AvpSub ==
  /\ pc = "a_sub"
  /\ Issue(alen - 6, arem) /\ prem' = alen - 6 /\ arem' = arem - (alen - 6)
  /\ need' \in MinLens /\ pc' \in {"a_min", "a_hdr"}                       \* known type / unknown type
  /\ UNCHANGED <<rem, len, alen, hdr, hasL, hasO, osz, used>>

AvpMin ==
  /\ pc = "a_min" /\ Quiet
  /\ IF LOn("AvpMin") /\ prem < need THEN pc' = "a_hdr" ELSE pc' = "a_read"
  /\ UNCHANGED <<rem, arem, prem, len, alen, need, hdr, hasL, hasO, osz, used>>

AvpRead ==         \* one fixed-width field (or reserved skip) of the field program
  /\ pc = "a_read"
  /\ IF need = 0
       THEN /\ Quiet /\ pc' \in {"a_tail", "a_hdr"} /\ UNCHANGED <<prem, need>>
       ELSE \E k \in MinLens :
              /\ k >= 1 /\ k <= need
              /\ Issue(k, prem) /\ prem' = prem - k /\ need' = need - k
              /\ pc' \in {"a_read", "a_hdr"}                                \* next field / enum or UTF-8 error
  /\ UNCHANGED <<rem, arem, len, alen, hdr, hasL, hasO, osz, used>>

AvpTail ==         \* optional tail: Result Code's error type (two octets if at least two remain); text via bytes()
  /\ pc = "a_tail"
  /\ IF LOn("ErrTail2") /\ prem < 2
       THEN Quiet /\ UNCHANGED <<prem>>
       ELSE Issue(2, prem) /\ prem' = prem - 2
  /\ pc' = "a_hdr"
  /\ UNCHANGED <<rem, arem, len, alen, need, hdr, hasL, hasO, osz, used>>

DataMin ==
  /\ pc = "d_min" /\ Quiet
  /\ \E l, s, o \in BOOLEAN :
       /\ hasL' = l /\ hasO' = o
       /\ hdr' = 4 + (IF l THEN 2 ELSE 0) + (IF s THEN 4 ELSE 0) + (IF o THEN 2 ELSE 0)
       /\ IF LOn("DataMin") /\ rem < hdr' THEN pc' = "done" ELSE pc' = "d_fields"
  /\ UNCHANGED <<rem, arem, prem, len, alen, need, osz, used>>

DataFields ==
  /\ pc = "d_fields"
  /\ LET n == hdr - (IF hasO THEN 2 ELSE 0) IN
       /\ Issue(n, rem) /\ rem' = rem - n /\ used' = used + n
  /\ len' \in U16 /\ pc' = "d_off"
  /\ UNCHANGED <<arem, prem, alen, need, hdr, hasL, hasO, osz>>

DataOffset ==
  /\ pc = "d_off"
  /\ IF hasO
       THEN Issue(2, rem) /\ rem' = rem - 2 /\ used' = used + 2 /\ osz' \in U16 /\ pc' = "d_skip"
       ELSE Quiet /\ pc' = "d_ext" /\ UNCHANGED <<rem, used, osz>>
  /\ UNCHANGED <<arem, prem, len, alen, need, hdr, hasL, hasO>>

DataSkip ==
  /\ pc = "d_skip"
  /\ IF LOn("DataOffsetFit") /\ osz > rem
       THEN Done /\ UNCHANGED <<rem, used>>
       ELSE Issue(osz, rem) /\ rem' = rem - osz /\ used' = used + osz /\ pc' = "d_ext"
  /\ UNCHANGED <<arem, prem, len, alen, need, hdr, hasL, hasO, osz>>

DataExtent ==      \* payload extent = Length - octets consumed so far; checked bytes() takes it
  /\ pc = "d_ext" /\ Quiet
  /\ IF hasL /\ ((LOn("DataLenMin") /\ len < used) \/ (LOn("DataLenFit") /\ len - used > rem))
       THEN pc' = "done" ELSE pc' = "d_pay"
  /\ UNCHANGED <<rem, arem, prem, len, alen, need, hdr, hasL, hasO, osz, used>>

DataPayload ==     \* the subtraction len - used must not underflow: modelled as a request of that size
  /\ pc = "d_pay"
  /\ IF hasL THEN Issue(len - used, rem) /\ rem' = rem - (len - used)
             ELSE Quiet /\ rem' = 0
  /\ pc' = "done"
  /\ UNCHANGED <<arem, prem, len, alen, need, hdr, hasL, hasO, osz, used>>

Next ==
  \/ Flags \/ CtlHeader \/ CtlLength \/ CtlCarve
  \/ AvpHeader \/ AvpLength \/ AvpSkip \/ AvpBytes \/ AvpSub \/ AvpMin \/ AvpRead \/ AvpTail
  \/ DataMin \/ DataFields \/ DataOffset \/ DataSkip \/ DataExtent \/ DataPayload

Spec == Init /\ [][Next]_vars

---------------------------------------------------------------------------
\* C01 / C02 at the design level
Safe ==
  /\ req >= 0 /\ req <= reqrem
  /\ rem >= 0 /\ arem >= 0 /\ prem >= 0

TypeOK ==
  /\ pc \in Pcs
  /\ rem \in Int /\ arem \in Int /\ prem \in Int /\ len \in U16 /\ alen \in AvpLens
  /\ need \in MinLens /\ hdr \in 4..12 /\ hasL \in BOOLEAN /\ hasO \in BOOLEAN
  /\ osz \in U16 /\ used \in Int /\ req \in Int /\ reqrem \in Int

\* the inductive invariant: Safe plus what each program counter has already established
IndInv ==
  /\ TypeOK /\ Safe
  /\ used >= 0
  /\ (pc = "c_carve" => len >= 12 /\ len - 12 <= rem)
  /\ (pc \in {"a_skip", "a_bytes", "a_sub"} => alen >= 6 /\ alen - 6 <= arem)
  /\ (pc = "a_read" => need <= prem)
  /\ (pc = "d_fields" => hdr <= rem)
  /\ (pc = "d_off" /\ hasO => rem >= 2)
  /\ (pc = "d_pay" /\ hasL => len >= used /\ len - used <= rem)

\* for Apalache: any state satisfying IndInv as initial state; constants
IndInit == IndInv
ConstInit == MaxRem = 48 /\ FieldMax = 65535 /\ LOff = {}
ConstInitNoAvpMin == MaxRem = 48 /\ FieldMax = 65535 /\ LOff = {"AvpMin"}
=============================================================================
