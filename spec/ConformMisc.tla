---------------------------- MODULE ConformMisc ----------------------------
(***************************************************************************)
(* Conformance of enumerated fields (C16), bitmask AVPs (C17), the cursor  *)
(* and buffer types (C18), error identity under single faults and error    *)
(* rendering (C20).                                                        *)
(***************************************************************************)
EXTENDS ConformEnc, WriterCore

Range(s) == { s[i] : i \in 1..Len(s) }

---------------------------------------------------------------------------
\* C16: complete accepted map of an enumerated field over lo..hi.
\* accepted = << <<code, name, <<code it re-encodes to>>>> ... >>
ExpectedEnumMap(field, lo, hi) ==
  IF field = "AttributeType"
    THEN { <<c, KindName(c), <<c>>>> : c \in { x \in AttributeTypes : x >= lo /\ x <= hi } }
    ELSE { <<c, NameOf(field, c), <<c>>>> : c \in { x \in Codes(field) : x >= lo /\ x <= hi } }

VEnumMap(ev) ==
  (IF ev.out.t # "ok" THEN <<"outcome-" \o ev.out.t>>
   ELSE T(ev.tested # ev.hi - ev.lo + 1, "harness-enum-range")
        \o T(LET exp == ExpectedEnumMap(ev.field, ev.lo, ev.hi)
                 \* an assigned attribute type whose own reader complains about the probe payload is still dispatched
                 norm(e) == IF ev.field = "AttributeType" /\ e[2] = "error-own" /\ e[1] \in AttributeTypes
                              THEN <<e[1], KindName(e[1]), <<e[1]>>>> ELSE e
             IN { norm(ev.accepted[i]) : i \in 1..Len(ev.accepted) } # exp, "enum-map")
        \o T(Len(ev.accepted) # Cardinality(Range(ev.accepted)), "enum-map"))
  \o IoTags(ev)

\* every named value encodes to its RFC number: pairs = << <<name, <<code>>>> ... >>
VEnumNames(ev) ==
  (IF ev.out.t # "ok" THEN <<"outcome-" \o ev.out.t>>
   ELSE T(\E i \in 1..Len(ev.pairs) :
             ~HasName(ev.field, ev.pairs[i][1]) \/ ev.pairs[i][2] # <<CodeOf(ev.field, ev.pairs[i][1])>>, "enum-names")
        \o T({ ev.pairs[i][1] : i \in 1..Len(ev.pairs) } # Names(ev.field), "enum-names"))
  \o IoTags(ev)

---------------------------------------------------------------------------
\* C17: bitmask AVPs.  Bit positions are <<octet 1..4, bit 0..7>> of the 4-octet big-endian word.
BitPositions == (1..4) \X (0..7)
BitSet(w, p) == Bit(w[p[1]], p[2])
OnesOf(w) == { p \in BitPositions : BitSet(w, p) }

\* The crate's layout of the two defined flags (RFC 2661 s4.4.3 / s4.4.5 "A S" / "A D" in bits 30 and 31,
\* which the crate's LSB-first numbering puts on 0x40 and 0x80 of the last octet), as the word that
\* K::new(first, second) must hold.  Constructor parameter order: FramingCapabilities(async, sync),
\* BearerCapabilities(digital, analog), BearerType(analog, digital), FramingType(analog, digital).
ExpectedCtorWord(kind, a, b) ==
  LET lo == IF kind = "BearerCapabilities" THEN (IF a THEN 128 ELSE 0) + (IF b THEN 64 ELSE 0)
            ELSE (IF a THEN 64 ELSE 0) + (IF b THEN 128 ELSE 0)
  IN <<0, 0, 0, lo>>

BitmaskTags(ev) ==
  T(\E i \in 1..4 : ev.ctor[i].bits # << >> /\ ev.ctor[i].bits[1] # ExpectedCtorWord(ev.kind, ev.ctor[i].a, ev.ctor[i].b), "bitmask-layout")
  \o
  LET ctor == ev.ctor
      ff == ctor[1]  tf == ctor[2]  ft == ctor[3]  tt == ctor[4]
      haveBits == \A i \in 1..4 : ctor[i].bits # << >>
  IN T(\E i \in 1..4 : ctor[i].first # ctor[i].a \/ ctor[i].second # ctor[i].b, "bitmask-ctor")
     \o (IF ~haveBits THEN <<"harness-bitmask-bits">>
         ELSE LET pa == OnesOf(tf.bits[1])       \* the bit the first parameter sets
                  pb == OnesOf(ft.bits[1])
              IN IF Cardinality(pa) # 1 \/ Cardinality(pb) # 1 \/ pa = pb
                      \/ OnesOf(ff.bits[1]) # {} \/ OnesOf(tt.bits[1]) # pa \cup pb
                   THEN <<"bitmask-bits">>
                 ELSE LET a == CHOOSE p \in pa : TRUE
                          b == CHOOSE p \in pb : TRUE
                      IN T(\E i \in 1..Len(ev.wire) :
                              LET r == ev.wire[i] IN
                              r.bits # <<r.w>> \/ r.first # BitSet(r.w, a) \/ r.second # BitSet(r.w, b), "bitmask-accessor")
                         \o T(\E i \in 1..Len(ev.wire) :                 \* C17: the 32 bits themselves survive decode then encode
                              LET enc == ev.wire[i].enc IN
                              Len(enc) < 4 \/ SubSeq(enc, Len(enc) - 3, Len(enc)) # ev.wire[i].w, "bitmask-value-lost")
                         \o T(\E i \in 1..Len(ev.wire) :                 \* C06: the whole record, header included
                              ev.wire[i].enc # AvpRecord(Avp(ev.kind, <<ev.wire[i].w>>)), "bitmask-reencode")
                         \o T(\E i \in 1..4 : ctor[i].enc # AvpRecord(Avp(ev.kind, ctor[i].bits)), "bitmask-reencode"))

\* C03 / C04 with one numeric field swept through its whole range inside the harness (the relation is on the
\* implementation's own values: Rust's `==` between the original and the strictly decoded value).  ev.v is the
\* base value: it must be in the round-trip domain as the specification defines it (so that the sweep means
\* something), the sweep must have covered the range asked for, and nothing may have failed.
VRtSweep(ev) ==
  (IF ev.out.t # "ok" THEN <<"outcome-" \o ev.out.t>>
   ELSE T(ev.tested # ev.want, "harness-sweep-range")
        \o T(LET sp == EncodeInto(<< >>, ev.kind, ev.v) IN sp.panic, "harness-sweep-base")
        \o T(ev.bad # << >>, "roundtrip"))
  \o IoTags(ev)

\* C17 over a whole range of wire words (thorough: all 2^32), swept inside the harness, which compares every word
\* with the bits the CONSTRUCTOR sets and reports the words that fail.  The specification checks that those
\* constructor words are the pinned layout (so that "the bit learned from the constructor" is the right bit),
\* that the sweep covered the range it was asked for, and that nothing failed.
VBitmaskSweep(ev) ==
  (IF ev.out.t # "ok" THEN <<"outcome-" \o ev.out.t>>
   ELSE T(\E i \in 1..4 : ev.ctor[i].bits # <<ExpectedCtorWord(ev.kind, ev.ctor[i].a, ev.ctor[i].b)>>, "bitmask-layout")
        \o T(ev.tested_hi # ev.want_hi \/ ev.tested_lo # ev.want_lo, "harness-sweep-range")
        \o T(ev.bad # << >>, "bitmask-accessor"))
  \o IoTags(ev)

VBitmask(ev) ==
  (IF ev.out.t # "ok" THEN <<"outcome-" \o ev.out.t>> ELSE BitmaskTags(ev)) \o IoTags(ev)

---------------------------------------------------------------------------
\* C20: rendering.  words = the alphanumeric words of the rendered text
VRender(ev) ==
  (IF ev.out.t # "ok" THEN <<"outcome-" \o ev.out.t>>
   ELSE T(ev.out.len = 0, "render-empty")
        \o T(ev.v.v \in AvpNamedVariants /\
             LET n == ev.v.a[1] IN
               IF IsKnownType(n) THEN KindName(n) \notin Range(ev.out.words)
               ELSE ToString(n) \notin Range(ev.out.words), "render-name"))
  \o IoTags(ev)

\* C20: a single fault injected into a valid message.  ev.base = the valid message,
\* ev.in = the faulty one, ev.fault = [v |-> variant, a |-> <<value>>] the error that names it.
VFault(ev) ==
  LET opts == OptsOf(ev)
      spBase == DecodeMessage(ev.base, opts)
      sp == DecodeMessage(ev.in, opts)
  IN (IF spBase.res.t # "ok" THEN <<"harness-fault-base">>
      ELSE IF sp.res.t # "err" \/ sp.res.v # <<ev.fault>> THEN <<"harness-fault-spec">>
      ELSE IF ~Finished(ev.out) THEN <<"outcome-" \o ev.out.t>>
      ELSE IF ev.out.t # "err" THEN <<"verdict">>
      ELSE T(ev.out.v # <<ev.fault>>, "error-identity"))
     \o IoTags(ev)

---------------------------------------------------------------------------
\* C20, exhaustive sweeps: the 16-bit field at offset ev.at of ev.in was given every value lo..hi by the
\* harness, which reports the values for which the strict decode was NOT exactly Err(<<variant(value)>>).
\* The specification validates the scheme -- the template with the base value decodes, and for the sample
\* values the specification itself yields exactly that error -- and then requires the report to be empty.
WithField(b, at, x) == [i \in 1..Len(b) |-> IF i = at + 1 THEN x \div 256 ELSE IF i = at + 2 THEN x % 256 ELSE b[i]]

VFaultSweep(ev) ==
  (IF ev.out.t # "ok" THEN <<"outcome-" \o ev.out.t>>
   ELSE IF DecodeMessage(WithField(ev.in, ev.at, ev.base_value), StrictOpts).res.t # "ok" THEN <<"harness-sweep-base">>
   ELSE IF \E i \in 1..Len(ev.samples) :
             DecodeMessage(WithField(ev.in, ev.at, ev.samples[i]), StrictOpts).res
               # [t |-> "err", v |-> <<Err1(ev.variant, ev.samples[i])>>] THEN <<"harness-sweep-spec">>
   ELSE IF ev.tested # ev.hi - ev.lo + 1 THEN <<"harness-sweep-range">>
   ELSE T(ev.anomalies # << >>, "error-identity"))
  \o IoTags(ev)

\* C18: operation sequences on the real SliceReader against the cursor model
RECURSIVE CursorTags(_, _, _, _)
CursorTags(src, rd, steps, i) ==
  IF i > Len(steps) THEN << >>
  ELSE
    LET st == steps[i]
        id == st.r + 1
        op == st.op
        n == st.n
    IN IF st.t = "refused"
         THEN IF id \in 1..Len(rd) /\ Enabled(rd, id, op, n) THEN <<"harness-cursor-refused">>
              ELSE CursorTags(src, rd, steps, i + 1)
       ELSE IF st.t = "panic"
         THEN IF op = "bytes" THEN <<"cursor-bytes-panic">> ELSE <<"cursor-panic">>
       ELSE IF ~Enabled(rd, id, op, n) THEN <<"harness-cursor-disabled">>
       ELSE
         LET nx == After(rd, id, op, n)
             retOk == CASE op = "read"  -> st.ret = Returns(src, rd, id, op, n)
                        [] op = "bytes" -> st.ret = Returns(src, rd, id, op, n)
                        [] op = "sub"   -> st.newlen = n /\ st.newempty = (n = 0)
                        [] OTHER -> TRUE
         IN IF ~retOk THEN <<"cursor-result">>
            \* (a refused slice request leaves a plain cursor where it was: After() = rd in that case)
            ELSE IF st.len # RemOf(nx[id]) \/ st.empty # (RemOf(nx[id]) = 0) THEN <<"cursor-position">>
            ELSE CursorTags(src, nx, steps, i + 1)

VCursor(ev) == CursorTags(ev.slice, RdInit(ev.slice), ev.steps, 1) \o IoTags(ev)

\* C18: operation sequences on the real VecWriter against the buffer model
RECURSIVE WriterTags(_, _, _)
WriterTags(buf, steps, i) ==
  IF i > Len(steps) THEN << >>
  ELSE
    LET st == steps[i]
        isPatch == st.op = "at"
        r == WApply(buf, IF isPatch THEN "patch" ELSE "append", st.b, st.off)
    IN IF isPatch /\ r.refused /\ st.t # "panic" THEN <<"writer-accepts-outside">>
       ELSE IF ~(isPatch /\ r.refused) /\ st.t # "ok" THEN <<"writer-refuses-valid">>
       ELSE IF st.data # r.buf THEN <<"writer-data">>
       ELSE IF st.len # Len(r.buf) \/ st.empty # (Len(r.buf) = 0) THEN <<"writer-len">>
       ELSE WriterTags(r.buf, steps, i + 1)

VVecWriter(ev) == WriterTags(<< >>, ev.steps, 1) \o IoTags(ev)
---------------------------------------------------------------------------
\* C14: one input under all 8 option sets (outs[1..8]) and through the default entry (outs[9])
OptsRec(o) == [res |-> o[1], ver |-> o[2], unu |-> o[3]]
Weaker(a, b) == (a[1] => b[1]) /\ (a[2] => b[2]) /\ (a[3] => b[3])      \* a checks no more than b
OkOut(r) == r.out.t = "ok"
SameOut(a, b) == OutSame("msg", a, b)

VDecodeOpts(ev) ==
  LET outs == ev.outs
      One(r) == MsgOutcomeTags(DecodeMessage(ev.in, IF r.entry = "default" THEN DefaultOpts ELSE OptsRec(r.opts)), r.out, r.rem)
      allFinished == \A i \in 1..Len(outs) : Finished(outs[i].out)
      w == IF Len(ev.in) >= 2 THEN U16At(ev.in, 0) ELSE 0
      none == outs[1]                   \* no checks
      onlyRes == outs[2]  onlyVer == outs[3]  onlyUnu == outs[5]
  IN ConcatTags(One, outs, 1)
     \* monotonicity with a panic as a third outcome: what decodes under stronger options must decode to the same
     \* value under weaker ones, and what weaker options reject stronger ones must REJECT (a panic is neither)
     \o (IF Len(outs) # 9 \/ allFinished THEN << >>
         ELSE T(\E i, j \in 1..8 : Weaker(outs[i].opts, outs[j].opts)
                  /\ \/ (Finished(outs[j].out) /\ OkOut(outs[j]) /\ ~Finished(outs[i].out))
                     \/ (Finished(outs[i].out) /\ outs[i].out.t = "err" /\ ~Finished(outs[j].out)), "opts-monotone")
              \o T(Finished(outs[9].out) # Finished(onlyVer.out), "default-entry"))
     \o (IF ~allFinished \/ Len(outs) # 9 THEN << >>
         ELSE T(\E i, j \in 1..8 : Weaker(outs[i].opts, outs[j].opts) /\ OkOut(outs[j])
                                     /\ ~(OkOut(outs[i]) /\ SameOut(outs[i], outs[j])), "opts-monotone")
              \o T(~SameOut(outs[9], onlyVer), "default-entry")
              \o (IF ~OkOut(none) THEN T(\E i \in 1..9 : OkOut(outs[i]), "opts-monotone")
                  ELSE T(OkOut(onlyVer) # (FlagVersion(w) = 2), "version-exact")
                       \o T(OkOut(onlyRes) # FlagReservedOk(w), "reserved-exact")
                       \o T(OkOut(onlyUnu) # ~(FlagT(w) /\ (FlagP(w) \/ FlagO(w))), "unused-exact")))
     \o IoTags(ev)

\* C14: single header bits toggled, every check switched off.  variants[1] is the input itself
\* (bit = -1), variants[b + 2] the input with bit b of the flag word toggled.  Bits that only a check
\* looks at -- the version nibble, the reserved bits, and on a control message P and O -- must not change
\* the result; every variant is also compared with the specification.
IgnorableBits(w) ==
  {0, 1, 2, 3, 10, 11, 13} \cup {4, 5, 6, 7} \cup (IF FlagT(w) THEN {14, 15} ELSE {})

VDecodeBits(ev) ==
  IF ev.variants = << >> THEN << >>
  ELSE
  LET vs == ev.variants
      w == U16At(ev.in, 0)
      Toggled(b) == Be16(IF Bit(w, b) THEN w - 2 ^ b ELSE w + 2 ^ b) \o Drop(ev.in, 2)
      NoChecks == [res |-> FALSE, ver |-> FALSE, unu |-> FALSE]
      One(r) == MsgOutcomeTags(DecodeMessage(IF r.bit < 0 THEN ev.in ELSE Toggled(r.bit), NoChecks), r.out, r.rem)
  IN ConcatTags(One, vs, 1)
     \o T(\E b \in IgnorableBits(w) :
            \/ Finished(vs[1].out) /\ Finished(vs[b + 2].out) /\ ~SameOut(vs[1], vs[b + 2])
            \/ Finished(vs[1].out) # Finished(vs[b + 2].out), "bits-affect-result")
     \o IoTags(ev)

\* C08: octets after the declared end never change the result
VDecodeSuffix(ev) ==
  LET opts == OptsOf(ev)
      spa == DecodeMessage(ev.in, opts)
      spb == DecodeMessage(ev.in \o ev.suffix, opts)
      \* "forall accepted b with declared length": accepted by the IMPLEMENTATION, as a control message or a data
      \* message with a Length field
      declared == \/ Finished(ev.out_a) /\ ev.out_a.t = "ok" /\ (ev.out_a.v.k = "Control" \/ ev.out_a.v.length # << >>)
                  \* ... or a control message the implementation REJECTS although its header is complete and its
                  \* declared end lies inside the buffer: the error list must not depend on what follows either
                  \* ("octets after the declared end never change the result")
                  \/ /\ Len(ev.in) >= 12 /\ FlagT(U16At(ev.in, 0)) /\ FlagL(U16At(ev.in, 0))
                     /\ U16At(ev.in, 2) >= 12 /\ U16At(ev.in, 2) <= Len(ev.in)
                     /\ Finished(ev.out_a) /\ ev.out_a.t = "err"
      ra == [out |-> ev.out_a, rem |-> ev.rem_a]
      rb == [out |-> ev.out_b, rem |-> ev.rem_b - Len(ev.suffix)]
  IN MsgOutcomeTags(spa, ev.out_a, ev.rem_a) \o MsgOutcomeTags(spb, ev.out_b, ev.rem_b)
     \* judged on the implementation's own two outcomes: the suffix changed nothing (a message that is wrongly
     \* rejected both times is C05's business, not a dependence on what follows)
     \o T(declared /\ (Finished(ev.out_a) # Finished(ev.out_b)
                        \/ (Finished(ev.out_a) /\ Finished(ev.out_b) /\ ~SameOut(ra, rb))), "suffix-dependence")
     \o IoTags(ev)

\* C08: decoding a concatenation of well-delimited records = concatenation of decoding each
VAvpsConcat(ev) ==
  LET whole == Concat(ev.recs)
      spw == DecodeAvps(whole)
      wellDelimited(i) == LET sp == DecodeAvps(ev.recs[i]) IN Len(sp.items) = 1 /\ ~sp.stopped /\ sp.rem = 0
      allFinished == Finished(ev.whole.out) /\ \A i \in 1..Len(ev.parts) : Finished(ev.parts[i].out)
  IN (IF ~allFinished THEN <<"outcome-panic">>
      ELSE T(~ItemsEq(spw.items, ev.whole.out.v), "value")
           \o T(\E i \in 1..Len(ev.recs) : ~ItemsEq(DecodeAvps(ev.recs[i]).items, ev.parts[i].out.v), "value")
           \o T((\A i \in 1..Len(ev.recs) : wellDelimited(i))
                  /\ ~ItemsEq(Concat([i \in 1..Len(ev.parts) |-> ev.parts[i].out.v]), ev.whole.out.v), "concat-mismatch"))
     \o IoTags(ev)
---------------------------------------------------------------------------
\* C15, exactly as quantified: a control message assembled from k AVP records.
\* ev.recs = the records, ev.parts[i] = what the implementation makes of record i ALONE
\* (AVP::try_read_greedy), ev.out = what it makes of the whole message under strict options.
\* The rule is applied to the implementation's own per-record results:
\*   J = the individually undecodable records; accepted iff J = {} and the first record (if any) is a
\*   Message Type; otherwise rejected, and when the first record is a valid Message Type the error list
\*   is the errors of J in wire order (parsing stops at a record whose length field is unusable).
VCtlRecords(ev) ==
  LET k == Len(ev.recs)
      body == Concat(ev.recs)
      wellFormed == /\ Len(ev.in) = 12 + Len(body) /\ Drop(ev.in, 12) = body /\ U16At(ev.in, 2) = Len(ev.in)
      partsOk == \A i \in 1..k : Finished(ev.parts[i].out) /\ Len(ev.parts[i].out.v) = 1
      item(i) == ev.parts[i].out.v[1]
      \* a record with an unusable length ends the parse: the specification says which ones those are
      stops(i) == DecodeAvps(ev.recs[i]).stopped
      firstStop == IF \E i \in 1..k : stops(i) THEN CHOOSE i \in 1..k : stops(i) /\ \A j \in 1..(i - 1) : ~stops(j) ELSE k
      seen == 1..firstStop                                   \* the records the parser gets to
      \* "none is vendor-specific": a record with a non-zero vendor id is bad whatever the implementation
      \* makes of it alone
      IsVendor(i) == Len(ev.recs[i]) >= 6 /\ U16At(ev.recs[i], 2) # 0
      J == { i \in seen : item(i).t = "err" \/ IsVendor(i) }
      firstIsMT == k > 0 /\ item(1).t = "ok" /\ item(1).v.k = "MessageType"
      shouldAccept == J = {} /\ (k = 0 \/ firstIsMT)
      errs == [n \in 1..Cardinality(J) |-> item(CHOOSE i \in J : Cardinality({j \in J : j < i}) = n - 1).v]
  IN (IF ~wellFormed THEN <<"harness-ctl-records">>
      ELSE IF ~Finished(ev.out) THEN <<"outcome-" \o ev.out.t>>
      \* every record here is ONE record by construction (the specification confirms it): decoded alone
      \* it must give exactly one result -- more means parsing went on past an unusable length
      ELSE IF \E i \in 1..k : Finished(ev.parts[i].out) /\ Len(DecodeAvps(ev.recs[i]).items) = 1
                                 /\ Len(ev.parts[i].out.v) # 1 THEN <<"error-count">>
      ELSE IF ~partsOk THEN << >>                            \* not a single item alone: out of scope here
      ELSE IF shouldAccept
        THEN IF ev.out.t # "ok" THEN <<"all-or-nothing">>
             ELSE T(~AvpsEq(ev.out.v.avps, [i \in 1..k |-> item(i).v]), "all-or-nothing")
      ELSE IF ev.out.t # "err" THEN <<"all-or-nothing">>
      ELSE T(ev.out.v = << >>, "empty-errors")
           \o (IF ~firstIsMT THEN << >>
               ELSE T(Len(ev.out.v) # Cardinality(J), "error-count")
                    \o T(Len(ev.out.v) = Cardinality(J) /\ (\A i \in J : item(i).t = "err") /\ ev.out.v # errs, "error-order")))
     \o IoTags(ev)
=============================================================================
