----------------------------- MODULE AvpTable ------------------------------
(***************************************************************************)
(* The 39 standard AVPs of RFC 2661 s4.4 as field programs.                *)
(*                                                                         *)
(* A field program is a sequence of operations applied left to right to    *)
(* the AVP payload (the octets after the 6-octet AVP header):              *)
(*   u8, u16       one / two octets, big-endian, value = integer           *)
(*   fix(n)        n octets, value = the octets (32/64-bit numbers and     *)
(*                 fixed arrays: carried as octets, see Bytes)             *)
(*   skip(n)       n reserved octets: ignored on input, zero on output     *)
(*   enum(tab)     two octets that must be a code point of tab,            *)
(*                 value = the name                                        *)
(*   rest          all remaining octets, at least one, value = the octets  *)
(*   utf8          as rest, and must be well-formed UTF-8                  *)
(*   optutf8       optional tail: nothing left -> <<>>, else <<octets>>    *)
(*                 which must be well-formed UTF-8                         *)
(*   opterr        optional tail of Result Code: fewer than two octets     *)
(*                 left -> <<>>,<<>>; else enum(ErrorType) then optutf8    *)
(* Surplus octets after a program without a tail operation are ignored.    *)
(***************************************************************************)
EXTENDS Naturals, Sequences, FiniteSets

LOCAL Op(o, n, tab) == [op |-> o, n |-> n, tab |-> tab]
U8op      == Op("u8", 1, "")
U16op     == Op("u16", 2, "")
Fix(n)    == Op("fix", n, "")
Skip(n)   == Op("skip", n, "")
Enum(tab) == Op("enum", 2, tab)
Rest      == Op("rest", 1, "")
Utf8op    == Op("utf8", 1, "")
OptUtf8   == Op("optutf8", 0, "")
OptErr    == Op("opterr", 0, "")

LOCAL D(name, prog) == [name |-> name, prog |-> prog]

AttributeTypes == (0..19) \cup (21..39)

AvpDesc(t) ==
  CASE t = 0  -> D("MessageType",               <<Enum("MessageType")>>)
    [] t = 1  -> D("ResultCode",                <<U16op, OptErr>>)
    [] t = 2  -> D("ProtocolVersion",           <<U8op, U8op>>)
    [] t = 3  -> D("FramingCapabilities",       <<Fix(4)>>)
    [] t = 4  -> D("BearerCapabilities",        <<Fix(4)>>)
    [] t = 5  -> D("TieBreaker",                <<Fix(8)>>)
    [] t = 6  -> D("FirmwareRevision",          <<U16op>>)
    [] t = 7  -> D("HostName",                  <<Rest>>)
    [] t = 8  -> D("VendorName",                <<Utf8op>>)
    [] t = 9  -> D("AssignedTunnelId",          <<U16op>>)
    [] t = 10 -> D("ReceiveWindowSize",         <<U16op>>)
    [] t = 11 -> D("Challenge",                 <<Rest>>)
    [] t = 12 -> D("Q931CauseCode",             <<U16op, U8op, OptUtf8>>)
    [] t = 13 -> D("ChallengeResponse",         <<Fix(16)>>)
    [] t = 14 -> D("AssignedSessionId",         <<U16op>>)
    [] t = 15 -> D("CallSerialNumber",          <<Fix(4)>>)
    [] t = 16 -> D("MinimumBps",                <<Fix(4)>>)
    [] t = 17 -> D("MaximumBps",                <<Fix(4)>>)
    [] t = 18 -> D("BearerType",                <<Fix(4)>>)
    [] t = 19 -> D("FramingType",               <<Fix(4)>>)
    [] t = 21 -> D("CalledNumber",              <<Utf8op>>)
    [] t = 22 -> D("CallingNumber",             <<Utf8op>>)
    [] t = 23 -> D("SubAddress",                <<Utf8op>>)
    [] t = 24 -> D("TxConnectSpeed",            <<Fix(4)>>)
    [] t = 25 -> D("PhysicalChannelId",         <<Fix(4)>>)
    [] t = 26 -> D("InitialReceivedLcpConfReq", <<Rest>>)
    [] t = 27 -> D("LastSentLcpConfReq",        <<Rest>>)
    [] t = 28 -> D("LastReceivedLcpConfReq",    <<Rest>>)
    [] t = 29 -> D("ProxyAuthenType",           <<Enum("ProxyAuthenType")>>)
    [] t = 30 -> D("ProxyAuthenName",           <<Rest>>)
    [] t = 31 -> D("ProxyAuthenChallenge",      <<Rest>>)
    [] t = 32 -> D("ProxyAuthenId",             <<Skip(1), U8op>>)
    [] t = 33 -> D("ProxyAuthenResponse",       <<Rest>>)
    [] t = 34 -> D("CallErrors",                <<Skip(2), Fix(4), Fix(4), Fix(4), Fix(4), Fix(4), Fix(4)>>)
    [] t = 35 -> D("Accm",                      <<Skip(2), Fix(4), Fix(4)>>)
    [] t = 36 -> D("RandomVector",              <<Fix(4)>>)
    [] t = 37 -> D("PrivateGroupId",            <<Rest>>)
    [] t = 38 -> D("RxConnectSpeed",            <<Fix(4)>>)
    [] t = 39 -> D("SequencingRequired",        << >>)

IsKnownType(t) == t \in AttributeTypes
KindName(t) == AvpDesc(t).name
Prog(t) == AvpDesc(t).prog

KindNames == { KindName(t) : t \in AttributeTypes }
TypeOfKind(k) == CHOOSE t \in AttributeTypes : KindName(t) = k
IsKind(k) == k \in KindNames

\* octets an operation needs unconditionally
OpMin(o) == o.n

RECURSIVE SumMin(_, _)
SumMin(prog, i) == IF i > Len(prog) THEN 0 ELSE OpMin(prog[i]) + SumMin(prog, i + 1)

\* Minimum payload length of a kind = what its program reads before any
\* optional part.  The decoder checks exactly this before its first read.
MinLen(t) == SumMin(Prog(t), 1)

\* number of values an operation contributes to the field list
OpArity(o) == CASE o.op = "skip" -> 0 [] o.op = "opterr" -> 2 [] OTHER -> 1

\* The attribute-type number is one-to-one with the kind name (C16, C20).
ASSUME Cardinality(KindNames) = Cardinality(AttributeTypes)
ASSUME Cardinality(AttributeTypes) = 39
ASSUME \A t \in AttributeTypes : TypeOfKind(KindName(t)) = t
\* tail operations only in last position
ASSUME \A t \in AttributeTypes : \A i \in 1..Len(Prog(t)) :
         Prog(t)[i].op \in {"rest", "utf8", "optutf8", "opterr"} => i = Len(Prog(t))
=============================================================================
