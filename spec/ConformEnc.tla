----------------------------- MODULE ConformEnc ----------------------------
(***************************************************************************)
(* Conformance of encoder-side, round-trip, re-encoding and hiding events  *)
(* (C03, C04, C06, C07, C09, C10, C11, C12, C13).                          *)
(***************************************************************************)
EXTENDS Conform, Hiding, MD5

PrefixOf(ev) == IF Has(ev, "prefix") THEN ev.prefix ELSE << >>

\* domains of the round-trip properties, as the properties state them -----------------------
\* variable-length parts non-empty (checked on the value's fields by its program)
RECURSIVE VarPartsNonEmpty(_, _, _, _)
VarPartsNonEmpty(prog, f, pi, fi) ==
  IF pi > Len(prog) THEN TRUE
  ELSE LET o == prog[pi] IN
       CASE o.op \in {"rest", "utf8"} -> f[fi] # << >> /\ VarPartsNonEmpty(prog, f, pi + 1, fi + 1)
         [] o.op = "optutf8" -> (f[fi] = << >> \/ f[fi][1] # << >>) /\ VarPartsNonEmpty(prog, f, pi + 1, fi + 1)
         [] o.op = "opterr"  -> (f[fi + 1] = << >> \/ f[fi + 1][1] # << >>) /\ VarPartsNonEmpty(prog, f, pi + 1, fi + 2)
         [] o.op = "skip"    -> VarPartsNonEmpty(prog, f, pi + 1, fi)
         [] OTHER            -> VarPartsNonEmpty(prog, f, pi + 1, fi + 1)

EncodableAvp(a) ==
  /\ 6 + ValueLength(a) <= MaxAvpLength
  /\ (IsHidden(a) \/ VarPartsNonEmpty(Prog(TypeOfKind(a.k)), a.f, 1, 1))

ControlInDomain(m, octets) ==
  /\ \A i \in 1..Len(m.avps) : EncodableAvp(m.avps[i])
  /\ (m.avps # << >> => m.avps[1].k = "MessageType")
  /\ Len(octets) <= MaxMessageLength

DataInDomain(d, octets) ==
  /\ d.data # << >>
  /\ (d.length = << >> \/ d.length[1] = Len(octets))
  /\ (d.offset = << >> \/ d.offset[1] <= Len(d.data) - 1)
  /\ Len(octets) <= MaxMessageLength

ExpectedAfterRoundTrip(m, octets) ==
  IF m.k = "Control" THEN [m EXCEPT !.length = Len(octets)]
  ELSE [m EXCEPT !.offset = << >>, !.data = Drop(m.data, IF m.offset = << >> THEN 0 ELSE m.offset[1])]

---------------------------------------------------------------------------
\* writer calls recorded by the monitoring writer: appends are appends; every positional
\* overwrite lies inside the value being encoded (at or after `base`) and inside the data
RECURSIVE WCallTags(_, _, _, _)
WCallTags(calls, base, len, i) ==
  IF i > Len(calls) THEN << >>
  ELSE LET c == calls[i] IN
       IF c[1] = "app" THEN (IF c[2] # len THEN <<"harness-writer-pos">> ELSE WCallTags(calls, base, len + c[3], i + 1))
       ELSE IF c[2] < base \/ c[2] + c[3] > len THEN <<"patch-outside">>
       ELSE WCallTags(calls, base, len, i + 1)

\* independent walk over the length fields of emitted octets (C07)
EmittedLengthsOk(kind, v, out) ==
  CASE kind = "avp" -> Tiles(out, 0)
    [] v.k = "Control" -> Len(out) >= 12 /\ U16At(out, 2) = Len(out) /\ Tiles(out, 12)
    [] OTHER -> TRUE

\* Message::write / AVP::write into a writer holding `prefix`
VEncode(ev) ==
  LET prefix == PrefixOf(ev)
      sp == EncodeInto(prefix, ev.kind, ev.v)
  IN (IF ev.out.t = "panic" THEN T(~sp.panic, "unexpected-panic")
      ELSE IF ev.out.t # "ok" THEN <<"outcome-" \o ev.out.t>>
      ELSE IF sp.panic THEN <<"oversize-accepted">>
      ELSE T(ev.out.v # sp.buf, "octets")
           \o T(Len(ev.out.v) < Len(prefix) \/ Take(ev.out.v, Len(prefix)) # prefix, "prefix-changed")
           \o T(Len(ev.out.v) >= Len(prefix) /\ ~EmittedLengthsOk(ev.kind, ev.v, Drop(ev.out.v, Len(prefix))), "length-field")
           \o T(ev.kind = "avp" /\ Has(ev, "glen") /\ 6 + ev.glen # Len(ev.out.v) - Len(prefix), "get-length"))
     \o T(ev.kind = "avp" /\ Has(ev, "glen") /\ ev.glen # ValueLength(ev.v), "get-length-spec")
     \o (IF Has(ev, "calls") THEN WCallTags(ev.calls, Len(prefix), Len(prefix), 1) ELSE << >>)
     \o IoTags(ev)

\* several values into one writer: the concatenation of the individual encodings (C09)
RECURSIVE EncSeqTags(_, _, _)
EncSeqTags(ev, buf, i) ==
  IF i > Len(ev.items) THEN T(Len(ev.outs) = Len(ev.items) /\ ev.buf # buf, "octets")
  ELSE IF i > Len(ev.outs) THEN <<"harness-encseq">>
  ELSE LET sp == EncodeInto(buf, ev.items[i].kind, ev.items[i].v)
           o == ev.outs[i]
       IN IF o.t = "panic" THEN T(~sp.panic, "unexpected-panic")
          ELSE IF sp.panic THEN <<"oversize-accepted">>
          ELSE IF o.len # Len(sp.buf) THEN <<"octets">>
          ELSE EncSeqTags(ev, sp.buf, i + 1)

VEncodeSeq(ev) == EncSeqTags(ev, << >>, 1) \o IoTags(ev)

\* encode, then decode under the strictest options (C03, C04)
VRoundtrip(ev) ==
  LET sp == EncodeInto(<< >>, ev.kind, ev.v) IN
  (IF ev.enc.t = "panic" THEN T(~sp.panic, "unexpected-panic")
   ELSE IF sp.panic THEN <<"oversize-accepted">>
   ELSE IF ev.enc.v # sp.buf THEN <<"octets">>
   ELSE IF ev.kind = "msg"
     THEN LET inDomain == IF ev.v.k = "Control" THEN ControlInDomain(ev.v, sp.buf) ELSE DataInDomain(ev.v, sp.buf)
          IN MsgOutcomeTags(DecodeMessage(sp.buf, StrictOpts), ev.dec, ev.rem)
             \o (IF ~inDomain THEN << >>
                 ELSE IF ev.dec.t # "ok" THEN <<"roundtrip">>
                 ELSE T(~MsgEq(ExpectedAfterRoundTrip(ev.v, sp.buf), ev.dec.v), "roundtrip")
                      \o T(ev.rem # 0, "roundtrip") \o T(~ev.eq, "native-eq"))
     ELSE LET spd == DecodeAvps(sp.buf) IN
          (IF ~Finished(ev.dec) THEN <<"outcome-" \o ev.dec.t>>
           ELSE T(~ItemsEq(spd.items, ev.dec.v), "value"))
          \o (IF ~EncodableAvp(ev.v) THEN << >>
              ELSE IF ~Finished(ev.dec) \/ Len(ev.dec.v) # 1 \/ ev.dec.v[1].t # "ok" THEN <<"roundtrip">>
              ELSE T(~AvpEq(ev.v, ev.dec.v[1].v), "roundtrip") \o T(~ev.eq, "native-eq")))
  \o IoTags(ev)

\* decode -> encode -> strict decode -> encode (C10)
VChain(ev) ==
  LET sp1 == DecodeMessage(ev.in, OptsOf(ev)) IN
  (IF ~Finished(ev.m1) THEN <<"outcome-" \o ev.m1.t>>
   ELSE IF sp1.res.t # ev.m1.t THEN <<"verdict">>
   ELSE IF sp1.res.t # "ok" THEN << >>
   ELSE IF ~MsgEq(sp1.res.v, ev.m1.v) THEN <<"value">>
   ELSE IF sp1.res.v.k = "Data" /\ FlagO(U16At(ev.in, 0)) THEN << >>      \* outside C10's domain
   ELSE IF ~Has(ev, "b1") THEN <<"chain-incomplete">>
   ELSE LET e1 == EncodeMessage(sp1.res.v) IN
        IF e1.panic THEN <<"harness-chain-panic">>
        ELSE T(ev.b1 # e1.buf, "octets")
             \o (IF ~Has(ev, "m2") \/ ~Finished(ev.m2) \/ ev.m2.t # "ok" THEN <<"not-stable-reject">>
                 ELSE T(~MsgEqUpToLength(ev.m1.v, ev.m2.v), "not-stable-value")
                      \o T(ev.m2.v.k = "Control" /\ ev.m2.v.length # Len(ev.b1), "not-stable-length")
                      \o T(~Has(ev, "eq") \/ ~ev.eq, "native-eq")
                      \o T(~Has(ev, "b2") \/ ev.b2 # ev.b1, "not-stable-octets")))
  \o IoTags(ev)

---------------------------------------------------------------------------
\* hiding (H = MD5)
MD5H(m) == MD5(m)

VHide(ev) ==
  LET sp == Hide(MD5H, ev.v, ev.secret, ev.rv, ev.lp, ev.ap) IN
  (IF ev.out.t = "panic" THEN T(~sp.panic, "unexpected-panic")
   ELSE IF ev.out.t # "ok" THEN <<"outcome-" \o ev.out.t>>
   ELSE IF sp.panic THEN <<"oversize-accepted">>
   ELSE T(~AvpEq(sp.v, ev.out.v), "hide-value")
        \o T(~IsHidden(ev.v) /\ ev.out.v.k = "Hidden"
               /\ Len(ev.out.v.f[2]) # HiddenLength(AvpPayload(ev.v), ev.lp), "hide-length")
        \o T(~IsHidden(ev.v) /\ ev.out.v.k = "Hidden" /\ ev.out.v.f[1] # AvpTypeOf(ev.v), "hide-type")
        \o T(Has(ev, "enc") /\ ev.enc # AvpRecord(sp.v), "hide-wire"))
  \o IoTags(ev)

VReveal(ev) ==
  LET sp == Reveal(MD5H, ev.v, ev.secret, ev.rv) IN
  (IF ev.out.t \notin {"ok", "err"} THEN <<"outcome-" \o ev.out.t>>
   ELSE T(~ItemEq(sp, ev.out), "reveal-value")
        \o T(IsHidden(ev.v) /\ ev.out.t = "ok" /\ ev.out.v.k # "Hidden"
               /\ (~IsKnownType(ev.v.f[1]) \/ ev.out.v.k # KindName(ev.v.f[1])), "reveal-kind")
        \o T(IsHidden(ev.v) /\ (ev.v.f[2] = << >> \/ Len(ev.v.f[2]) % Chunk # 0) /\ ev.out.t # "err", "reveal-accepts-bad"))
  \o IoTags(ev)

\* hide, reveal directly, reveal after encode/decode (C11)
VHideReveal(ev) ==
  (IF ~Has(ev, "h") \/ Has(ev.h, "t") THEN <<"outcome-panic">>       \* the whole chain panicked
   ELSE
   LET sp == Hide(MD5H, ev.v, ev.secret, ev.rv, ev.lp, ev.ap)
       inDomain == ~IsHidden(ev.v) /\ EncodableAvp(ev.v)
                     /\ 2 + ValueLength(ev.v) + Len(ev.lp) <= 1008
   IN IF sp.panic THEN <<"harness-hide-panic">>
      ELSE T(~AvpEq(sp.v, ev.h), "hide-value")
           \o T(IsHidden(ev.v) /\ ~AvpEq(ev.v, ev.h), "hide-of-hidden")
           \o (IF ~inDomain THEN << >>
               ELSE T(~(ev.r1.t = "ok" /\ AvpEq(ev.r1.v, ev.v)), "reveal-direct")
                    \o T(~ev.eq1, "native-eq")
                    \o T(ev.enc # AvpRecord(sp.v), "hide-wire")
                    \o (IF ~Has(ev, "r2") THEN <<"reveal-wire">>
                        ELSE T(~(ev.r2.t = "ok" /\ AvpEq(ev.r2.v, ev.v)), "reveal-wire")
                             \o T(~ev.eq2, "native-eq"))))
  \o IoTags(ev)
=============================================================================
