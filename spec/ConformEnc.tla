----------------------------- MODULE ConformEnc ----------------------------
(***************************************************************************)
(* Conformance of encoder-side, round-trip, re-encoding and hiding events  *)
(* (C03, C04, C06, C07, C09, C10, C11, C12, C13).                          *)
(***************************************************************************)
EXTENDS Conform, Hiding, MD5

PrefixOf(ev) == IF Has(ev, "prefix") THEN ev.prefix ELSE << >>

\* domains of the round-trip properties, as the properties state them -----------------------
\* variable-length parts non-empty (checked on the value's fields by its program)
RECURSIVE VarPartsNonEmpty(_, _, _, _)
VarPartsNonEmpty(prog, f, pi, fi) ==
  IF pi > Len(prog) THEN TRUE
  ELSE LET o == prog[pi] IN
       CASE o.op \in {"rest", "utf8"} -> f[fi] # << >> /\ VarPartsNonEmpty(prog, f, pi + 1, fi + 1)
         [] o.op = "optutf8" -> (f[fi] = << >> \/ f[fi][1] # << >>) /\ VarPartsNonEmpty(prog, f, pi + 1, fi + 1)
         [] o.op = "opterr"  -> (f[fi + 1] = << >> \/ f[fi + 1][1] # << >>) /\ VarPartsNonEmpty(prog, f, pi + 1, fi + 2)
         [] o.op = "skip"    -> VarPartsNonEmpty(prog, f, pi + 1, fi)
         [] OTHER            -> VarPartsNonEmpty(prog, f, pi + 1, fi + 1)

EncodableAvp(a) ==
  /\ 6 + ValueLength(a) <= MaxAvpLength
  /\ (IsHidden(a) \/ VarPartsNonEmpty(Prog(TypeOfKind(a.k)), a.f, 1, 1))

ControlInDomain(m, octets) ==
  /\ \A i \in 1..Len(m.avps) : EncodableAvp(m.avps[i])
  /\ (m.avps # << >> => m.avps[1].k = "MessageType")
  /\ Len(octets) <= MaxMessageLength

DataInDomain(d, octets) ==
  /\ d.data # << >>
  /\ (d.length = << >> \/ d.length[1] = Len(octets))
  /\ (d.offset = << >> \/ d.offset[1] <= Len(d.data) - 1)
  \* (no size limit of its own: without a Length field a data message may exceed 65 535 octets)

ExpectedAfterRoundTrip(m, octets) ==
  IF m.k = "Control" THEN [m EXCEPT !.length = Len(octets)]
  ELSE [m EXCEPT !.offset = << >>, !.data = Drop(m.data, IF m.offset = << >> THEN 0 ELSE m.offset[1])]

---------------------------------------------------------------------------
\* writer calls recorded by the monitoring writer: appends are appends; every positional
\* overwrite lies inside the value being encoded (at or after `base`) and inside the data
RECURSIVE WCallTags(_, _, _, _)
WCallTags(calls, base, len, i) ==
  IF i > Len(calls) THEN << >>
  ELSE LET c == calls[i] IN
       IF c[1] = "app" THEN (IF c[2] # len THEN <<"harness-writer-pos">> ELSE WCallTags(calls, base, len + c[3], i + 1))
       ELSE IF c[2] < base \/ c[2] + c[3] > len THEN <<"patch-outside">>
       ELSE WCallTags(calls, base, len, i + 1)

\* independent walk over the length fields of emitted octets (C07)
EmittedLengthsOk(kind, v, out) ==
  CASE kind = "avp" -> Tiles(out, 0)
    [] v.k = "Control" -> Len(out) >= 12 /\ U16At(out, 2) = Len(out) /\ Tiles(out, 12)
    [] OTHER -> TRUE

\* Message::write / AVP::write into a writer holding `prefix`.
\* `solo` (logged when the prefix is non-empty) is the implementation's own encoding of the same value
\* into an EMPTY writer: C09 is judged against it, not against the specification's octets.
VEncode(ev) ==
  LET prefix == PrefixOf(ev)
      sp == EncodeInto(prefix, ev.kind, ev.v)
  IN (IF ev.out.t = "panic" THEN T(~sp.panic, "unexpected-panic")
      ELSE IF ev.out.t # "ok" THEN <<"outcome-" \o ev.out.t>>
      ELSE IF sp.panic THEN <<"oversize-accepted">>
      ELSE T(ev.out.v # sp.buf, "octets")
           \o T(Len(ev.out.v) < Len(prefix) \/ Take(ev.out.v, Len(prefix)) # prefix, "prefix-changed")
           \* (a prefix too large to log: the harness reports whether its octets are untouched, out.v is what follows)
           \o T(Has(ev, "prefix_ok") /\ ~ev.prefix_ok, "prefix-changed")
           \o T(Len(ev.out.v) >= Len(prefix) /\ ~EmittedLengthsOk(ev.kind, ev.v, Drop(ev.out.v, Len(prefix))), "length-field")
           \o T(ev.kind = "avp" /\ Has(ev, "glen") /\ 6 + ev.glen # Len(ev.out.v) - Len(prefix), "get-length"))
     \o T(ev.kind = "avp" /\ Has(ev, "glen") /\ ev.glen # ValueLength(ev.v), "get-length-spec")
     \o T(Has(ev, "glen_bad"), "get-length")         \* get_length() panicked or returned a wrapped value
     \o T(Has(ev, "solo") /\ ev.solo.t = "ok" /\ (ev.out.t # "ok" \/ ev.out.v # prefix \o ev.solo.v), "position-dependent")
     \o T(Has(ev, "solo") /\ ev.solo.t = "panic" /\ ev.out.t = "ok", "position-dependent")
     \o (IF Has(ev, "calls") THEN WCallTags(ev.calls, Len(prefix), Len(prefix), 1) ELSE << >>)
     \o IoTags(ev)

\* several values into one writer: the concatenation of the individual encodings (C09).
\* outs[i] = result after the i-th value; solos[i] = the implementation's encoding of value i alone.
RECURSIVE EncSeqTags(_, _, _)
EncSeqTags(ev, buf, i) ==
  IF i > Len(ev.items) THEN T(Len(ev.outs) = Len(ev.items) /\ ev.buf # buf, "octets")
  ELSE IF i > Len(ev.outs) THEN <<"harness-encseq">>
  ELSE LET sp == EncodeInto(buf, ev.items[i].kind, ev.items[i].v)
           o == ev.outs[i]
       IN IF o.t = "panic" THEN T(~sp.panic, "unexpected-panic")
          ELSE IF sp.panic THEN <<"oversize-accepted">>
          ELSE IF o.len # Len(sp.buf) THEN <<"octets">>
          ELSE EncSeqTags(ev, sp.buf, i + 1)

SolosConcat(ev) == Concat([i \in 1..Len(ev.solos) |-> IF ev.solos[i].t = "ok" THEN ev.solos[i].v ELSE << >>])

VEncodeSeq(ev) ==
  EncSeqTags(ev, << >>, 1)
    \o (IF ~Has(ev, "solos") THEN << >>
        ELSE IF \A i \in 1..Len(ev.solos) : ev.solos[i].t = "ok"
          THEN T(Len(ev.outs) # Len(ev.items) \/ (\E i \in 1..Len(ev.outs) : ev.outs[i].t # "ok") \/ ev.buf # SolosConcat(ev),
                 "position-dependent")
        ELSE << >>)
    \o IoTags(ev)

\* encode, then decode under the strictest options (C03, C04).
\* Three independent judgements: encoder against the specification (octets), decoder against the
\* specification on the octets the implementation emitted (verdict / value / rem), and the round-trip
\* relation itself on the implementation's own values (roundtrip / native-eq).
VRoundtrip(ev) ==
  LET sp == EncodeInto(<< >>, ev.kind, ev.v)
      encOk == ev.enc.t = "ok"
      oct == IF encOk THEN ev.enc.v ELSE << >>
      isMsg == ev.kind = "msg"
      inDomain == /\ ~sp.panic
                  /\ CASE ~isMsg -> EncodableAvp(ev.v)
                       [] ev.v.k = "Control" -> ControlInDomain(ev.v, sp.buf)
                       [] OTHER -> DataInDomain(ev.v, IF encOk THEN oct ELSE sp.buf)
      decoded == encOk /\ Has(ev, "dec")
  IN (IF ev.enc.t = "panic" THEN T(~sp.panic, "unexpected-panic")
      ELSE IF ~encOk THEN <<"outcome-" \o ev.enc.t>>
      ELSE IF sp.panic THEN <<"oversize-accepted">>
      ELSE T(oct # sp.buf, "octets"))
     \o (IF ~decoded THEN << >>
         ELSE IF isMsg THEN MsgOutcomeTags(DecodeMessage(oct, StrictOpts), ev.dec, ev.rem)
         ELSE IF ~Finished(ev.dec) THEN <<"outcome-" \o ev.dec.t>>
         ELSE T(~ItemsEq(DecodeAvps(oct).items, ev.dec.v), "value"))
     \o (IF ~inDomain THEN << >>
         ELSE IF ~decoded \/ ~Finished(ev.dec) THEN <<"roundtrip">>
         ELSE IF isMsg
           THEN IF ev.dec.t # "ok" THEN <<"roundtrip">>
                ELSE T(~MsgEq(ExpectedAfterRoundTrip(ev.v, oct), ev.dec.v) \/ ev.rem # 0, "roundtrip") \o T(~ev.eq, "native-eq")
         ELSE IF Len(ev.dec.v) # 1 \/ ev.dec.v[1].t # "ok" THEN <<"roundtrip">>
         ELSE T(~AvpEq(ev.v, ev.dec.v[1].v), "roundtrip") \o T(~ev.eq, "native-eq"))
     \o IoTags(ev)

\* decode -> encode -> strict decode -> encode (C10).
\* The fixed-point relation is judged on the implementation's own values; agreement of the first
\* decode and of the first encode with the specification is reported separately (verdict / value / octets).
VChain(ev) ==
  LET sp1 == DecodeMessage(ev.in, OptsOf(ev))
      m1ok == Finished(ev.m1) /\ ev.m1.t = "ok"
  IN (IF ~Finished(ev.m1) THEN <<"outcome-" \o ev.m1.t>>
      ELSE IF sp1.res.t # ev.m1.t THEN <<"verdict">>
      ELSE T(sp1.res.t = "ok" /\ ~MsgEq(sp1.res.v, ev.m1.v), "value"))
     \o T(m1ok /\ sp1.res.t = "ok" /\ MsgEq(sp1.res.v, ev.m1.v) /\ Has(ev, "b1")
            /\ ev.b1 # EncodeMessage(sp1.res.v).buf, "octets")
     \o (IF ~m1ok THEN << >>
         ELSE IF ev.m1.v.k = "Data" /\ FlagO(U16At(ev.in, 0)) THEN << >>      \* outside C10's domain
         ELSE IF Has(ev, "stage_panic") THEN <<"not-stable-panic">>
         ELSE IF ~Has(ev, "b1") \/ ~Has(ev, "m2") THEN <<"chain-incomplete">>
         ELSE IF ~Finished(ev.m2) \/ ev.m2.t # "ok" THEN <<"not-stable-reject">>
         ELSE T(~MsgEqUpToLength(ev.m1.v, ev.m2.v), "not-stable-value")
              \o T(ev.m2.v.k = "Control" /\ ev.m2.v.length # Len(ev.b1), "not-stable-length")
              \o T(~Has(ev, "eq") \/ ~ev.eq, "native-eq")
              \o T(~Has(ev, "b2") \/ ev.b2 # ev.b1, "not-stable-octets"))
     \o IoTags(ev)

---------------------------------------------------------------------------
\* hiding (H = MD5)
MD5H(m) == MD5(m)

\* C12's own statement about the wire form of a hidden AVP: hidden bit set, attribute type in clear, the
\* hidden value as the payload (everything else about the record is C06's business)
HideWireBad(enc, hv) ==
  Len(enc) < 6 \/ ~Bit(enc[1], 1) \/ U16At(enc, 4) # hv.f[1] \/ Drop(enc, 6) # hv.f[2]

VHide(ev) ==
  LET sp == Hide(MD5H, ev.v, ev.secret, ev.rv, ev.lp, ev.ap) IN
  (IF ev.out.t = "panic" THEN T(~sp.panic, "unexpected-panic")
   ELSE IF ev.out.t # "ok" THEN <<"outcome-" \o ev.out.t>>
   ELSE IF sp.panic THEN <<"oversize-accepted">>
   ELSE T(~AvpEq(sp.v, ev.out.v), "hide-value")
        \o T(~IsHidden(ev.v) /\ ev.out.v.k = "Hidden"
               /\ Len(ev.out.v.f[2]) # HiddenLength(AvpPayload(ev.v), ev.lp), "hide-length")
        \o T(~IsHidden(ev.v) /\ ev.out.v.k = "Hidden" /\ ev.out.v.f[1] # AvpTypeOf(ev.v), "hide-type")
        \o T(Has(ev, "enc") /\ ev.enc # AvpRecord(sp.v), "hide-wire")
        \o T(Has(ev, "enc") /\ sp.v.k = "Hidden" /\ HideWireBad(ev.enc, sp.v), "hide-wire-form"))
  \o IoTags(ev)

VReveal(ev) ==
  LET sp == Reveal(MD5H, ev.v, ev.secret, ev.rv) IN
  (IF ev.out.t \notin {"ok", "err"} THEN <<"outcome-" \o ev.out.t>>
   ELSE T(~ItemEq(sp, ev.out), "reveal-value")
        \o T(IsHidden(ev.v) /\ ev.out.t = "ok" /\ ev.out.v.k # "Hidden"
               /\ (~IsKnownType(ev.v.f[1]) \/ ev.out.v.k # KindName(ev.v.f[1])), "reveal-kind")
        \* C13: empty / misaligned values and decrypted lengths that do not fit must be rejected
        \o T(IsHidden(ev.v) /\ ev.out.t # "err" /\ sp.t = "err"
               /\ sp.v.v \in {"EmptyHiddenAVP", "MisalignedHiddenAVP", "InvalidOriginalAVPLength"}, "reveal-accepts-bad"))
  \o IoTags(ev)

\* hide, reveal directly, reveal after encode/decode (C11)
VHideReveal(ev) ==
  LET sp == Hide(MD5H, ev.v, ev.secret, ev.rv, ev.lp, ev.ap)
      \* C11's domain as quantified: non-hidden, encodable, 2 + |payload| + |lp| <= 1008 (so that the hidden AVP
      \* still fits 1023 octets and can travel); outside it only the hidden value itself is compared (C12)
      inDomain == ~IsHidden(ev.v) /\ EncodableAvp(ev.v) /\ 2 + ValueLength(ev.v) + Len(ev.lp) <= 1008
      travels == sp.v.k = "Hidden" /\ 6 + Len(sp.v.f[2]) <= MaxAvpLength
      hPanicked == ~Has(ev, "h") \/ Has(ev.h, "t")
  IN (IF hPanicked THEN (IF sp.panic THEN << >> ELSE IF inDomain \/ IsHidden(ev.v) THEN <<"outcome-panic">> ELSE <<"unexpected-panic">>)
      ELSE IF sp.panic THEN <<"oversize-accepted">>
      ELSE T(~AvpEq(sp.v, ev.h), "hide-value")
           \o T(IsHidden(ev.v) /\ ~AvpEq(ev.v, ev.h), "hide-of-hidden")
           \o (IF ~inDomain THEN << >>
               ELSE T(~(ev.r1.t = "ok" /\ AvpEq(ev.r1.v, ev.v)), "reveal-direct")
                    \o T(~ev.eq1, "native-eq")
                    \o (IF ~travels THEN << >>
                        ELSE IF Has(ev, "wire_panic") THEN <<"wire-panic">>
                        ELSE T(ev.enc # AvpRecord(sp.v), "hide-wire")
                             \o T(HideWireBad(ev.enc, sp.v), "hide-wire-form")
                             \o (IF ~Has(ev, "r2") THEN <<"reveal-wire">>
                                 ELSE T(~(ev.r2.t = "ok" /\ AvpEq(ev.r2.v, ev.v)), "reveal-wire")
                                      \o T(~ev.eq2, "native-eq")))))
  \o IoTags(ev)
=============================================================================
