---------------------------- MODULE EncLenMachine ----------------------------
(***************************************************************************)
(* The position arithmetic of the encoder, with the octet VALUES           *)
(* forgotten: an integer-only abstraction of Encoder in which the writer   *)
(* may already hold ANY number of octets, a control message has ANY number *)
(* of AVPs and every AVP payload has ANY size.  Variables are the writer   *)
(* length, the remembered positions (message start, Length placeholder,    *)
(* AVP start), the number of AVPs still to write, and the ghost triple     *)
(* (ptype, poff, pval): which length field the last step back-patched,     *)
(* where, and with what value.                                             *)
(*                                                                         *)
(*   Safe == the writer never shrinks below what it held before; every     *)
(*           back-patch lies inside the value being encoded and inside the *)
(*           data written so far (C09); the value patched in is exactly    *)
(*           the measured extent and FITS its field -- 10 bits for an AVP, *)
(*           16 bits for a message -- otherwise the encoder refuses (C07)  *)
(*                                                                         *)
(* It is checked                                                           *)
(*   - by TLC for small limits (MCEncLenMachine.cfg: the 10-bit limit      *)
(*     scaled to 9 and the 16-bit limit to 30 so that both refusals are    *)
(*     reached),                                                           *)
(*   - by Apalache as an INDUCTIVE invariant with the real limits and no   *)
(*     bound that matters on sizes and counts,                             *)
(* and Encoder refines it: MCEncoder checks on every explored step that    *)
(* the abstraction of the step is a step of this machine (RefinesEncLen).  *)
(* The two size guards can be switched off (EOff) to show that Safe is not *)
(* vacuous.                                                                *)
(***************************************************************************)
EXTENDS Integers

CONSTANTS
  \* @type: Int;
  MaxStart,   \* octets already in the writer: 0..MaxStart
  \* @type: Int;
  MaxAvps,    \* AVPs of a control message: 0..MaxAvps
  \* @type: Int;
  PayMax,     \* AVP payload / data message sizes: 0..PayMax
  \* @type: Int;
  AvpLimit,   \* 1023
  \* @type: Int;
  MsgLimit,   \* 65535
  \* @type: Set(Str);
  EOff        \* guards switched off (fault seeding); {} = the real design

VARIABLES
  \* @type: Str;
  pc,
  \* @type: Str;
  kind,       \* "avp" | "ctl" | "data"
  \* @type: Int;
  wlen,       \* octets in the writer
  \* @type: Int;
  base,       \* octets in the writer when the encode started
  \* @type: Int;
  start,      \* where the message starts
  \* @type: Int;
  lenpos,     \* where the message Length placeholder is
  \* @type: Int;
  astart,     \* where the current AVP starts (= where its flags-and-length placeholder is)
  \* @type: Int;
  left,       \* AVPs still to write
  \* @type: Str;
  ptype,      \* "none" | "avp" | "msg": the back-patch the last step made
  \* @type: Int;
  poff,
  \* @type: Int;
  pval,
  \* @type: Bool;
  panic

vars == <<pc, kind, wlen, base, start, lenpos, astart, left, ptype, poff, pval, panic>>

EOn(g) == g \notin EOff

Pcs == {"m_start", "m_len", "m_hdr", "a_next", "a_vendor", "a_body", "a_patch", "m_patch", "d_write", "done"}

Init ==
  /\ base \in 0..MaxStart /\ wlen = base /\ start = base /\ lenpos = 0 /\ astart = 0
  /\ kind \in {"avp", "ctl", "data"}
  /\ left \in 0..MaxAvps /\ (kind = "avp" => left = 1) /\ (kind = "data" => left = 0)
  /\ pc = (IF kind = "avp" THEN "a_next" ELSE IF kind = "ctl" THEN "m_start" ELSE "d_write")
  /\ ptype = "none" /\ poff = 0 /\ pval = 0 /\ panic = FALSE

NoPatch == ptype' = "none" /\ poff' = 0 /\ pval' = 0
Append(n, to) == wlen' = wlen + n /\ pc' = to /\ NoPatch
\* (an interval, not an existential over sizes: TLC decides membership of a given successor in O(1))
AppendBetween(lo, hi, to) == wlen' \in (wlen + lo)..(wlen + hi) /\ pc' = to /\ NoPatch

MsgStart ==
  /\ pc = "m_start" /\ Append(2, "m_len") /\ start' = wlen
  /\ UNCHANGED <<kind, base, lenpos, astart, left, panic>>

MsgLen ==
  /\ pc = "m_len" /\ Append(2, "m_hdr") /\ lenpos' = wlen
  /\ UNCHANGED <<kind, base, start, astart, left, panic>>

MsgHeader ==
  /\ pc = "m_hdr" /\ Append(8, "a_next")
  /\ UNCHANGED <<kind, base, start, lenpos, astart, left, panic>>

AvpNext ==
  /\ pc = "a_next"
  /\ IF left = 0
       THEN /\ pc' = (IF kind = "avp" THEN "done" ELSE "m_patch") /\ NoPatch
            /\ UNCHANGED <<kind, wlen, base, start, lenpos, astart, left, panic>>
       ELSE /\ Append(2, "a_vendor") /\ astart' = wlen /\ left' = left - 1
            /\ UNCHANGED <<kind, base, start, lenpos, panic>>

AvpVendor ==
  /\ pc = "a_vendor" /\ Append(2, "a_body")
  /\ UNCHANGED <<kind, base, start, lenpos, astart, left, panic>>

AvpBody ==        \* attribute type and a payload of any size
  /\ pc = "a_body"
  /\ AppendBetween(2, 2 + PayMax, "a_patch")
  /\ UNCHANGED <<kind, base, start, lenpos, astart, left, panic>>

AvpPatch ==
  /\ pc = "a_patch"
  /\ LET len == wlen - astart IN
     IF EOn("AvpLimit") /\ len > AvpLimit
       THEN /\ pc' = "done" /\ panic' = TRUE /\ NoPatch
       ELSE /\ pc' = "a_next" /\ ptype' = "avp" /\ poff' = astart /\ pval' = len /\ UNCHANGED panic
  /\ UNCHANGED <<kind, wlen, base, start, lenpos, astart, left>>

MsgPatch ==
  /\ pc = "m_patch"
  /\ LET len == wlen - start IN
     IF EOn("MsgLimit") /\ len > MsgLimit
       THEN /\ pc' = "done" /\ panic' = TRUE /\ NoPatch
       ELSE /\ pc' = "done" /\ ptype' = "msg" /\ poff' = lenpos /\ pval' = len /\ UNCHANGED panic
  /\ UNCHANGED <<kind, wlen, base, start, lenpos, astart, left>>

DataWrite ==      \* flags, ids, optional fields and payload in one append: 6 octets or more; nothing is patched
  /\ pc = "d_write"
  /\ AppendBetween(6, 6 + PayMax, "done")
  /\ UNCHANGED <<kind, base, start, lenpos, astart, left, panic>>

Next == MsgStart \/ MsgLen \/ MsgHeader \/ AvpNext \/ AvpVendor \/ AvpBody \/ AvpPatch \/ MsgPatch \/ DataWrite

Spec == Init /\ [][Next]_vars

---------------------------------------------------------------------------
Safe ==
  /\ wlen >= base /\ base >= 0
  /\ (ptype # "none" =>
        /\ poff >= base /\ poff + 2 <= wlen                      \* inside the value being encoded, inside the data
        /\ pval = wlen - (IF ptype = "avp" THEN poff ELSE poff - 2)   \* the measured extent, from the value's first octet
        /\ (ptype = "avp" => pval >= 6 /\ pval <= AvpLimit)      \* fits 10 bits
        /\ (ptype = "msg" => pval >= 12 /\ pval <= MsgLimit))    \* fits 16 bits

TypeOK ==
  /\ pc \in Pcs /\ kind \in {"avp", "ctl", "data"} /\ ptype \in {"none", "avp", "msg"} /\ panic \in BOOLEAN
  /\ wlen \in Int /\ base \in Int /\ start \in Int /\ lenpos \in Int /\ astart \in Int /\ left \in Int
  /\ poff \in Int /\ pval \in Int

InAvp == pc \in {"a_vendor", "a_body", "a_patch"}
InCtlBody == kind = "ctl" /\ pc \in {"a_next", "a_vendor", "a_body", "a_patch", "m_patch"}

\* the inductive invariant: Safe plus what each program counter has already established
IndInv ==
  /\ TypeOK /\ Safe
  /\ left >= 0
  /\ (kind = "avp" => pc \in {"a_next", "a_vendor", "a_body", "a_patch", "done"})
  /\ (kind = "data" => pc \in {"d_write", "done"})
  /\ (kind = "ctl" => pc # "d_write")
  /\ (pc \in {"m_start", "d_write"} => wlen = base)
  /\ (pc = "m_patch" => kind = "ctl")
  /\ (kind = "ctl" /\ pc \notin {"m_start", "done"} => start = base)
  /\ (pc = "m_len" => wlen = start + 2)
  /\ (pc = "m_hdr" => lenpos = start + 2 /\ wlen = start + 4)
  /\ (InCtlBody => lenpos = start + 2 /\ wlen >= start + 12)
  /\ (InAvp => astart >= base /\ (kind = "ctl" => astart >= start + 12))
  /\ (pc = "a_vendor" => wlen = astart + 2)
  /\ (pc = "a_body" => wlen = astart + 4)
  /\ (pc = "a_patch" => wlen >= astart + 6)

\* for Apalache
IndInit == IndInv
ConstInit ==
  /\ MaxStart = 1000000 /\ MaxAvps = 1000000 /\ PayMax = 1000000 /\ AvpLimit = 1023 /\ MsgLimit = 65535 /\ EOff = {}
ConstInitNoAvpLimit ==
  /\ MaxStart = 1000000 /\ MaxAvps = 1000000 /\ PayMax = 1000000 /\ AvpLimit = 1023 /\ MsgLimit = 65535 /\ EOff = {"AvpLimit"}
=============================================================================
