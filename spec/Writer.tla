------------------------------- MODULE Writer ------------------------------
(***************************************************************************)
(* The Writer contract as a machine with state variables; the functional core  *)
(* (preconditions, results, successor state) is in WriterCore and is shared    *)
(* with the trace specifications.                                          *)
(***************************************************************************)
EXTENDS WriterCore

VARIABLES buf, wlast

WInit == buf = << >> /\ wlast = << >>

WAppend(bs) == buf' = buf \o bs /\ wlast' = [op |-> "append", refused |-> FALSE]
WPatch(bs, off) ==
  LET r == WApply(buf, "patch", bs, off) IN
  buf' = r.buf /\ wlast' = [op |-> "patch", refused |-> r.refused]

\* action properties of the buffer model (C18, C09)
\* an append never changes what was there; a patch never changes the length
AppendOnlyGrows == [][Len(buf') >= Len(buf)]_<<buf, wlast>>
PatchKeepsLength == [][wlast'.op = "patch" => Len(buf') = Len(buf)]_<<buf, wlast>>
=============================================================================
