SPECIFICATION Spec
CONSTANT Off = {}
CONSTANT Family = "reveal"
INVARIANTS Safe RevealHide DeclEqualsIter RejectsBad Export
PROPERTIES Terminates
CHECK_DEADLOCK FALSE
