SPECIFICATION Spec
CONSTANT Off = {}
CONSTANT Family = "huge"
INVARIANTS Safe Oversize RoundTrip AvpDirect Export
PROPERTIES AppendOrPatch Terminates
CHECK_DEADLOCK FALSE
