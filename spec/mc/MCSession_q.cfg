SPECIFICATION Spec
CONSTANT Off = {}
CONSTANT MaxSend = 2
CONSTANT Sessions = {1, 2}
INVARIANTS WriterIsConcat BackToBack AtBoundary AllReceived CanProgress Export
PROPERTIES OutputSilent CallsIndependent
CHECK_DEADLOCK FALSE
