------------------------------- MODULE MCEnums ------------------------------
(***************************************************************************)
(* C16 on the specification, for every 16-bit code x (one state per x):    *)
(* each enumerated field accepts x exactly when x is one of its RFC 2661   *)
(* code points, maps it to one name, and encodes that name back to x --    *)
(* checked through the specification's own decoder and encoder (one-AVP    *)
(* bodies), not only on the tables.  Attribute types likewise.             *)
(***************************************************************************)
EXTENDS Encoder, Decoder, TLC

VARIABLE x

Init == x \in 0..65535
Next == UNCHANGED x
Spec == Init /\ [][Next]_x

Assigned(field) ==
  CASE field = "MessageType" -> (1..4) \cup (6..12) \cup (14..16)
    [] field = "ErrorType" -> 0..8
    [] field = "ProxyAuthenType" -> 0..5
    [] field = "StopCcn" -> 0..7
    [] field = "Cdn" -> 0..11

\* payload that carries code x in the enumerated field
PayloadFor(field) ==
  CASE field = "MessageType" -> Be16(x)
    [] field = "ProxyAuthenType" -> Be16(x)
    [] field = "ErrorType" -> <<0, 1>> \o Be16(x)
TypeFor(field) == CASE field = "MessageType" -> 0 [] field = "ProxyAuthenType" -> 29 [] field = "ErrorType" -> 1

WireEnumExact(field) ==
  LET r == DecodePayload(TypeFor(field), PayloadFor(field)) IN
  /\ (r.t = "ok") <=> (x \in Assigned(field))
  /\ (r.t = "ok") => AvpPayload(r.v) = PayloadFor(field)              \* re-encodes to the same number

TableExact(field) == HasCode(field, x) <=> x \in Assigned(field)

\* attribute types: accepted by the dispatch exactly when assigned; the kind encodes back to x
AttributeTypeExact ==
  LET r == DecodePayload(x, <<0, 1, 0, 1>> \o [i \in 1..28 |-> 65]) IN
  /\ (r.t = "err" /\ r.v = Err1("UnknownAvp", x)) <=> (x \notin AttributeTypes)
  /\ (x \in AttributeTypes) => (r.t = "ok" /\ AvpTypeOf(r.v) = x /\ r.v.k = KindName(x))

EnumsExact ==
  /\ \A f \in {"MessageType", "ErrorType", "ProxyAuthenType"} : WireEnumExact(f) /\ TableExact(f)
  /\ TableExact("StopCcn") /\ TableExact("Cdn")
  /\ AttributeTypeExact
=============================================================================
