SPECIFICATION Spec
CONSTANT Depth = 5
INVARIANTS Export
PROPERTIES PatchExact AppendExact AppendOnlyGrows PatchKeepsLength
CHECK_DEADLOCK FALSE
