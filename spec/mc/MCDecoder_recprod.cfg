SPECIFICATION Spec
CONSTANT Off = {}
CONSTANT Family = "recprod"
INVARIANTS Safe TypeOk AbsInv OptionsOk Normalises SuffixIndependent Export
PROPERTIES LoopProgress Monotone Terminates RefinesLen IdleAdvances AbsProgress
CHECK_DEADLOCK FALSE
