SPECIFICATION Spec
CONSTANT MaxStart = 2
CONSTANT MaxAvps = 4
CONSTANT PayMax = 6
CONSTANT AvpLimit = 9
CONSTANT MsgLimit = 40
CONSTANT EOff = {}
INVARIANTS TypeOK Safe IndInv
CHECK_DEADLOCK FALSE
