----------------------------- MODULE MCDecoder -----------------------------
(***************************************************************************)
(* Model checking the Decoder machine.                                     *)
(*                                                                         *)
(* The input is chosen nondeterministically in Init from a BOUNDARY        *)
(* GRAMMAR selected by the constant Family (every guard of the decoder at  *)
(* -1 / exact / +1, every flag combination, every AVP kind around its      *)
(* minimum length, every placement of good and bad records).  Next is the  *)
(* machine's Step, split by program counter into named actions so that     *)
(* TLC's coverage shows which parts of the decoder were exercised.         *)
(*                                                                         *)
(* TLC checks the invariants of Decoder in every state of every run, and   *)
(* prints one REPLAY line per finished run (input, options, expected       *)
(* result): those behaviours are replayed against the real crate.          *)
(***************************************************************************)
EXTENDS Decoder, Encoder, Json, TLC

CONSTANT Family

VARIABLES st, trail      \* trail: the program counters visited so far (for coverage of the export)

---------------------------------------------------------------------------
\* building blocks of the grammars
B(x) == IF x THEN 1 ELSE 0
FlagWord(t, l, s, o, p, ver, resv) ==
  t * 256 + l * 512 + s * 4096 + o * 16384 + p * 32768 + ver * 16 + resv

Ids == <<0, 1, 0, 2>>                       \* tunnel 1, session 2
NsNr == <<0, 3, 0, 4>>
CtlFlags == FlagWord(1, 1, 1, 0, 0, 2, 0)

Ctl(flags, length, body) == Be16(flags) \o Be16(length) \o Ids \o NsNr \o body
CtlExact(body) == Ctl(CtlFlags, 12 + Len(body), body)

\* AVP record with explicit header fields
Rec(o1low6, len, vendor, t, payload) ==
  << ((len \div 256) % 4) * 64 + o1low6, len % 256 >> \o Be16(vendor) \o Be16(t) \o payload
Good(t, payload) == Rec(1, 6 + Len(payload), 0, t, payload)

RecMT == Good(0, <<0, 1>>)                   \* Message Type = SCCRQ
RecHost == Good(7, <<65, 66>>)               \* Host Name "AB"
RecBadHost == Good(7, << >>)                 \* undecodable: empty Host Name
RecUnknown == Good(20, <<1, 2, 3>>)          \* unassigned attribute type
RecVendor == Rec(1, 8, 9, 7, <<65, 66>>)     \* vendor specific
RecHidden == Rec(3, 9, 0, 7, <<9, 9, 9>>)    \* hidden
RecShort == Rec(1, 5, 0, 7, << >>)           \* length field below 6
RecOverrun == Rec(1, 40, 0, 7, <<65>>)       \* length field beyond the data
RecBadMT == Good(0, <<0, 5>>)                \* Message Type with unassigned code

RecOverrun1 == Rec(1, 8, 0, 7, <<65>>)       \* length field one octet beyond the data

RecordClasses == <<RecMT, RecHost, RecBadHost, RecUnknown, RecVendor, RecHidden, RecShort, RecOverrun, RecOverrun1>>

\* all sequences over 1..n of length 0..k
RECURSIVE SeqsUpTo(_, _)
SeqsUpTo(n, k) ==
  IF k = 0 THEN {<< >>}
  ELSE LET shorter == SeqsUpTo(n, k - 1)
       IN shorter \cup { Append(s, i) : s \in {x \in shorter : Len(x) = k - 1}, i \in 1..n }

RECURSIVE CatClasses(_)
CatClasses(ix) == IF ix = << >> THEN << >> ELSE RecordClasses[Head(ix)] \o CatClasses(Tail(ix))

OptSets == { [res |-> r, ver |-> v, unu |-> u] : r \in BOOLEAN, v \in BOOLEAN, u \in BOOLEAN }
FewOpts == { StrictOpts, [res |-> FALSE, ver |-> FALSE, unu |-> FALSE] }

\* content patterns for payloads of n octets
Pattern(kind, n) ==
  CASE kind = "zero" -> Zeros(n)
    [] kind = "text" -> [i \in 1..n |-> IF i % 2 = 1 /\ i <= 4 THEN 0 ELSE IF i <= 4 THEN 1 ELSE 65]
    [] kind = "high" -> [i \in 1..n |-> 255]

---------------------------------------------------------------------------
\* The grammars.  Each is a set of initial decoder states.

\* every T/L/S/O/P combination x version x reserved x options x truncation
FramingInputs ==
  { LET w == FlagWord(t, l, s, o, p, ver, resv)
        ctlTail == Be16(20) \o Ids \o NsNr \o RecMT
        dataLen == 2 + 2 * l + 4 + 4 * s + 2 * o + 2
        dataTail == (IF l = 1 THEN Be16(dataLen) ELSE << >>) \o Ids
                     \o (IF s = 1 THEN NsNr ELSE << >>) \o (IF o = 1 THEN <<0, 0>> ELSE << >>)
                     \o <<170, 187>>
        full == Be16(w) \o (IF t = 1 THEN ctlTail ELSE dataTail)
    IN InitMessage(Take(full, IF cut = 99 THEN Len(full) ELSE cut), opts, 0)
    : t \in {0, 1}, l \in {0, 1}, s \in {0, 1}, o \in {0, 1}, p \in {0, 1},
      ver \in {2, 3}, resv \in {0, 1, 1024}, opts \in OptSets, cut \in {99, 1, 2, 7} }

\* control Length field against the octets available
CtlLenInputs ==
  { InitMessage(Take(Ctl(CtlFlags, len, RecMT \o RecHost \o <<1, 2, 3>>), avail), opts, 0)
    : len \in (0..14) \cup (19..32) \cup {65535}, avail \in {12, 13} \cup (19..31), opts \in FewOpts }

\* one AVP record: wire length x hidden x vendor x type x what follows x wrapper
AvpRecInputs ==
  { LET payload == <<0, 1, 65>>                \* fit = 9
        rec == Rec(1 + 2 * h, len, vendor, t, payload)
        body == (IF wrap = "ctl" THEN RecMT ELSE << >>) \o rec \o follow
    IN IF wrap = "ctl" THEN InitMessage(CtlExact(body), StrictOpts, 0) ELSE InitAvps(body)
    : len \in (0..10) \cup {1023}, h \in {0, 1}, vendor \in {0, 9}, t \in {0, 7, 20, 39, 65535},
      follow \in {<< >>, RecHost, <<1, 2, 3>>}, wrap \in {"ctl", "bare"} }

\* records that need the high bits of the 10-bit length: total length 255..257, 511..513, 1022..1023,
\* declared exactly / one short / one long, alone and followed by another record
AvpBigInputs ==
  { LET payload == [i \in 1..n |-> (i * 3) % 256]
        rec == Rec(1, 6 + n + d, 0, 7, payload)
        body == (IF wrap = "ctl" THEN RecMT ELSE << >>) \o rec \o follow
    IN IF wrap = "ctl" THEN InitMessage(CtlExact(body), StrictOpts, 0) ELSE InitAvps(body)
    : n \in {249, 250, 251, 505, 506, 507, 1016, 1017}, d \in {0, 1}, follow \in {<< >>, RecHost},
      wrap \in {"ctl", "bare"} }
  \cup
  { InitAvps(Rec(1, 6 + n - 1, 0, 7, [i \in 1..n |-> i % 256])) : n \in {250, 251, 506, 507, 1017} }

\* the header of one record over the product of its fields: flag bits (M, H, reserved), vendor id, attribute
\* type (assigned kinds of every shape, unassigned numbers), payload length 0..4 -- as the FIRST record of a
\* control message (where a Message Type is expected), as the second one, and as a bare list
RecProdInputs ==
  { LET rec == Rec(f, 6 + n, v, t, Pattern(pat, n))
    IN CASE wrap = "first"  -> InitMessage(CtlExact(rec \o RecHost), StrictOpts, 0)
         [] wrap = "second" -> InitMessage(CtlExact(RecMT \o rec \o RecHost), StrictOpts, 0)
         [] OTHER           -> InitAvps(rec \o RecHost)
    : f \in {0, 1, 2, 3, 61, 62}, v \in {0, 9}, t \in {0, 1, 7, 12, 13, 20, 26, 29, 34, 36, 39, 40, 65535},
      n \in 0..4, pat \in {"text"}, wrap \in {"first", "second", "bare"} }

\* every AVP kind (and two unassigned numbers) at payload length 0 .. min+2, three contents
KindInputs ==
  { IF mode = "payload" THEN InitPayload(Pattern(pat, n), t, 0, n)
    ELSE InitAvps(Good(t, Pattern(pat, n)))
    : t \in AttributeTypes \cup {20, 40}, n \in 0..5, pat \in {"zero", "text", "high"},
      mode \in {"payload", "bare"} }
  \cup
  { InitPayload(Pattern(pat, MinLen(t) + d), t, 0, MinLen(t) + d)
    : t \in AttributeTypes, d \in 0..2, pat \in {"zero", "text", "high"} }
  \cup
  { InitPayload(Pattern(pat, MinLen(t) - 1), t, 0, MinLen(t) - 1)
    : t \in {x \in AttributeTypes : MinLen(x) >= 1}, pat \in {"zero", "text"} }

\* every placement of good and bad records (C15)
LoopInputs(k) ==
  { InitMessage(CtlExact(CatClasses(ix)), StrictOpts, 0) : ix \in SeqsUpTo(Len(RecordClasses), k) }
  \cup { InitAvps(CatClasses(ix)) : ix \in SeqsUpTo(Len(RecordClasses), k - 1) }
  \cup { InitMessage(CtlExact(RecBadMT \o RecHost), StrictOpts, 0),
         InitMessage(CtlExact(RecMT \o RecBadMT), StrictOpts, 0) }

\* data messages: Length and offset size against the octets available
DataInputs ==
  { LET hdr == 2 + 2 * B(lenSel # "none") + 4 + 4 * s + 2 * B(offSel # "none")
        avail == nData          \* octets after the offset field
        osize == CASE offSel = "none" -> 0 [] offSel = "zero" -> 0 [] offSel = "one" -> 1
                   [] offSel = "availm1" -> avail - 1 [] offSel = "avail" -> avail
                   [] offSel = "availp1" -> avail + 1 [] offSel = "max" -> 65535
        total == hdr + nData
        len == CASE lenSel = "none" -> 0 [] lenSel = "zero" -> 0 [] lenSel = "hdrm1" -> hdr - 1
                 [] lenSel = "hdr" -> hdr [] lenSel = "hdrp1" -> hdr + 1
                 [] lenSel = "hdrposz" -> hdr + (IF osize <= avail THEN osize ELSE 0)
                 [] lenSel = "total" -> total [] lenSel = "totalp1" -> total + 1
                 [] lenSel = "totalp" -> total + 3 [] lenSel = "max" -> 65535
        w == FlagWord(0, B(lenSel # "none"), s, B(offSel # "none"), p, 2, 0)
        msg == Be16(w) \o (IF lenSel # "none" THEN Be16(len) ELSE << >>) \o Be16(id) \o Be16(id)
                 \o (IF s = 1 THEN NsNr ELSE << >>)
                 \o (IF offSel # "none" THEN Be16(osize) ELSE << >>)
                 \o [i \in 1..nData |-> 160 + i] \o trailing
    IN InitMessage(msg, StrictOpts, 0)
    : id \in {0, 65535}, s \in {0, 1}, p \in {0, 1},
      lenSel \in {"none", "zero", "hdrm1", "hdr", "hdrp1", "hdrposz", "total", "totalp1", "totalp", "max"},
      offSel \in {"none", "zero", "one", "availm1", "avail", "availp1", "max"},
      nData \in {1, 2, 5}, trailing \in {<< >>, <<7, 7, 7>>} }

\* flag words for C14: a tail consistent with the L/S/O bits follows, so that only the
\* version nibble, the reserved bits and (control) P/O decide
FlagTail(w) ==
  IF FlagT(w) THEN Be16(20) \o Ids \o NsNr \o RecMT
  ELSE LET dataLen == 2 + 2 * B(FlagL(w)) + 4 + 4 * B(FlagS(w)) + 2 * B(FlagO(w)) + 2 IN
       (IF FlagL(w) THEN Be16(dataLen) ELSE << >>) \o Ids \o (IF FlagS(w) THEN NsNr ELSE << >>)
         \o (IF FlagO(w) THEN <<0, 0>> ELSE << >>) \o <<170, 187>>
NoOpts == [res |-> FALSE, ver |-> FALSE, unu |-> FALSE]
FlagWordsQuick ==
  { FlagWord(t, l, s, o, p, ver, resv) : t \in {0, 1}, l \in {0, 1}, s \in {0, 1}, o \in {0, 1}, p \in {0, 1},
      ver \in {0, 1, 2, 3, 15}, resv \in {0, 1, 2, 4, 8, 1024, 2048, 8192, 11279} }
FlagInputs(W) == { InitMessage(Be16(w) \o FlagTail(w), NoOpts, 0) : w \in W }

Inputs ==
  CASE Family = "framing" -> FramingInputs
    [] Family = "ctllen"  -> CtlLenInputs
    [] Family = "avprec"  -> AvpRecInputs \cup AvpBigInputs
    [] Family = "kinds"   -> KindInputs
    [] Family = "recprod" -> RecProdInputs
    [] Family = "loop3"   -> LoopInputs(3)
    [] Family = "loop4"   -> LoopInputs(4)
    [] Family = "data"    -> DataInputs
    [] Family = "flagsq"  -> FlagInputs(FlagWordsQuick)
    [] Family = "flagsall" -> FlagInputs(0..65535)
    [] Family = "all"     -> FramingInputs \cup CtlLenInputs \cup AvpRecInputs \cup AvpBigInputs \cup KindInputs
                               \cup LoopInputs(3) \cup DataInputs

---------------------------------------------------------------------------
Init == st \in Inputs /\ trail = << >>

Flags       == st.pc = "flags" /\ st' = Step(st) /\ trail' = Append(trail, st.pc)
Version     == st.pc = "version" /\ st' = Step(st) /\ trail' = Append(trail, st.pc)
Reserved    == st.pc = "reserved" /\ st' = Step(st) /\ trail' = Append(trail, st.pc)
Dispatch    == st.pc = "dispatch" /\ st' = Step(st) /\ trail' = Append(trail, st.pc)
CtlUnused   == st.pc = "c_unused" /\ st' = Step(st) /\ trail' = Append(trail, st.pc)
CtlBits     == st.pc = "c_bits" /\ st' = Step(st) /\ trail' = Append(trail, st.pc)
CtlHeader   == st.pc = "c_hdr" /\ st' = Step(st) /\ trail' = Append(trail, st.pc)
CtlLength   == st.pc = "c_len" /\ st' = Step(st) /\ trail' = Append(trail, st.pc)
CtlCarve    == st.pc = "c_carve" /\ st' = Step(st) /\ trail' = Append(trail, st.pc)
CtlFirst    == st.pc = "c_first" /\ st' = Step(st) /\ trail' = Append(trail, st.pc)
CtlCollect  == st.pc = "c_collect" /\ st' = Step(st) /\ trail' = Append(trail, st.pc)
AvpHeader   == st.pc = "a_hdr" /\ st' = Step(st) /\ trail' = Append(trail, st.pc)
AvpLength   == st.pc = "a_len" /\ st' = Step(st) /\ trail' = Append(trail, st.pc)
AvpVendor   == st.pc = "a_vendor" /\ st' = Step(st) /\ trail' = Append(trail, st.pc)
AvpHidden   == st.pc = "a_hidden" /\ st' = Step(st) /\ trail' = Append(trail, st.pc)
AvpType     == st.pc = "a_type" /\ st' = Step(st) /\ trail' = Append(trail, st.pc)
AvpMin      == st.pc = "a_min" /\ st' = Step(st) /\ trail' = Append(trail, st.pc)
AvpField    == st.pc = "a_field" /\ st' = Step(st) /\ trail' = Append(trail, st.pc)
DataMin     == st.pc = "d_min" /\ st' = Step(st) /\ trail' = Append(trail, st.pc)
DataFields  == st.pc = "d_fields" /\ st' = Step(st) /\ trail' = Append(trail, st.pc)
DataOffset  == st.pc = "d_offset" /\ st' = Step(st) /\ trail' = Append(trail, st.pc)
DataSkip    == st.pc = "d_skip" /\ st' = Step(st) /\ trail' = Append(trail, st.pc)
DataExtent  == st.pc = "d_extent" /\ st' = Step(st) /\ trail' = Append(trail, st.pc)
DataPayload == st.pc = "d_payload" /\ st' = Step(st) /\ trail' = Append(trail, st.pc)
GreedyDone  == st.pc = "g_done" /\ st' = Step(st) /\ trail' = Append(trail, st.pc)

Next ==
  \/ Flags \/ Version \/ Reserved \/ Dispatch
  \/ CtlUnused \/ CtlBits \/ CtlHeader \/ CtlLength \/ CtlCarve \/ CtlFirst \/ CtlCollect
  \/ AvpHeader \/ AvpLength \/ AvpVendor \/ AvpHidden \/ AvpType \/ AvpMin \/ AvpField
  \/ DataMin \/ DataFields \/ DataOffset \/ DataSkip \/ DataExtent \/ DataPayload
  \/ GreedyDone

vars == <<st, trail>>
Spec == Init /\ [][Next]_vars /\ WF_vars(Next)

---------------------------------------------------------------------------
\* safety, checked in every state
Safe == StateOk(st)

TypeOk == st.pc \in PcValues

\* the AVP loop makes progress: the region shrinks by at least 6 octets per record
LoopProgress == [][(st.pc = "a_hdr" /\ st'.pc = "a_len") => Variant(st') <= Variant(st) - 6]_vars
\* the position never moves backwards
Monotone == [][st'.pos >= st.pos /\ st'.apos >= st.apos]_vars

\* liveness: every run terminates
Terminates == <>(st.pc = "done")

\* C14 on the specification, evaluated once per input (in its initial state):
\* options only restrict; each check looks at exactly its bits; the default is version only
Weaker(a, b) == (a.res => b.res) /\ (a.ver => b.ver) /\ (a.unu => b.unu)
OptionsOk ==
  (Family \in {"flagsq", "flagsall", "framing"} /\ st.pc = "flags" /\ st.pos = 0 /\ Len(st.in) >= 2) =>
    LET in == st.in
        w == U16At(in, 0)
        R == [o \in OptSets |-> DecodeMessage(in, o).res]
        none == R[NoOpts]
        only(r, v, u) == R[[res |-> r, ver |-> v, unu |-> u]]
    IN /\ \A a, b \in OptSets : (Weaker(a, b) /\ R[b].t = "ok") => (R[a].t = "ok" /\ R[a].v = R[b].v)
       /\ (none.t = "err") => \A o \in OptSets : R[o].t = "err"
       /\ (none.t = "ok") =>
            /\ (only(FALSE, TRUE, FALSE).t = "ok") <=> (FlagVersion(w) = 2)
            /\ (only(TRUE, FALSE, FALSE).t = "ok") <=> FlagReservedOk(w)
            /\ (only(FALSE, FALSE, TRUE).t = "ok") <=> ~(FlagT(w) /\ (FlagP(w) \/ FlagO(w)))
       /\ DefaultOpts = [res |-> FALSE, ver |-> TRUE, unu |-> FALSE]

\* C10 on the specification: an accepted control message, or data message without offset field,
\* re-encodes to octets that decode (strictly) to the same value up to the control Length, and
\* encoding that value again reproduces the octets
Normalises ==
  (st.pc = "done" /\ st.mode = "msg" /\ st.res.t = "ok" /\ ~(st.res.v.k = "Data" /\ FlagO(st.flags))) =>
    LET e1 == EncodeMessage(st.res.v)
        d2 == DecodeMessage(e1.buf, StrictOpts)
    IN /\ ~e1.panic
       /\ d2.res.t = "ok"
       /\ (IF st.res.v.k = "Control" THEN d2.res.v = [st.res.v EXCEPT !.length = Len(e1.buf)] ELSE d2.res.v = st.res.v)
       /\ EncodeMessage(d2.res.v).buf = e1.buf

\* C08 on the specification: octets after the declared end never change the result
SuffixIndependent ==
  (st.pc = "done" /\ st.mode = "msg" /\ st.res.t = "ok" /\ (st.res.v.k = "Control" \/ st.res.v.length # << >>)) =>
    \A sfx \in { <<0>>, <<255, 255, 255>>, CtlExact(RecMT) } :
      LET d == DecodeMessage(st.in \o sfx, st.opts) IN d.res = st.res /\ d.rem = (st.lim - st.pos) + Len(sfx)

---------------------------------------------------------------------------
\* Refinement: every step of the Decoder machine is a step of LenMachine (the integer-only
\* abstraction whose safety is shown inductive for inputs of any length), under this mapping.
IsFixedOp(o) == o.op \in {"u8", "u16", "fix", "skip", "enum"}
RECURSIVE FixedFrom(_, _)
FixedFrom(prog, i) == IF i > Len(prog) THEN 0 ELSE (IF IsFixedOp(prog[i]) THEN prog[i].n ELSE 0) + FixedFrom(prog, i + 1)

DataPhase(s) == s.pc \in {"d_fields", "d_offset", "d_skip", "d_extent", "d_payload"} \/ "osize" \in DOMAIN s.hdr
KnownP(s) == IsKnownType(s.ptype)

AbsPc(s) ==
  CASE s.mode = "payload" /\ s.pc = "done" -> "a_hdr"
    [] s.pc = "flags" -> "flags"
    [] s.pc \in {"version", "reserved", "dispatch", "c_unused", "c_bits"} -> "post_flags"
    [] s.pc \in {"c_hdr", "c_len", "c_carve", "a_hdr", "a_len", "a_min", "d_min", "d_fields", "d_skip"} -> s.pc
    [] s.pc = "a_vendor" -> IF s.cur.vendor # 0 THEN "a_skip" ELSE IF s.cur.hidden THEN "a_bytes" ELSE "a_sub"
    [] s.pc = "a_hidden" -> IF s.cur.hidden THEN "a_bytes" ELSE "a_sub"
    [] s.pc = "a_type" -> IF KnownP(s) THEN "a_min" ELSE "a_hdr"
    [] s.pc = "a_field" -> "a_read"
    [] s.pc = "d_offset" -> "d_off"
    [] s.pc = "d_extent" -> "d_ext"
    [] s.pc = "d_payload" -> "d_pay"
    [] s.pc \in {"c_first", "c_collect", "g_done", "done"} -> "done"

AbsLen(s) ==
  IF "osize" \in DOMAIN s.hdr THEN (IF s.hdr.length = << >> THEN 0 ELSE s.hdr.length[1])
  ELSE IF "length" \in DOMAIN s.hdr THEN s.hdr.length ELSE 0
AbsNeed(s) ==
  IF ~KnownP(s) THEN 0
  ELSE IF s.pc \in {"a_type", "a_min"} THEN FixedFrom(Prog(s.ptype), 1) ELSE FixedFrom(Prog(s.ptype), s.fi)
AbsOps(s) ==
  IF ~KnownP(s) THEN 0
  ELSE IF s.pc \in {"a_type", "a_min"} THEN Len(Prog(s.ptype)) ELSE Max(0, Len(Prog(s.ptype)) - s.fi + 1)
AbsReq(s) == IF s.req.kind \in {"read", "skip", "sub"} THEN s.req.n ELSE 0
AbsReqRem(s) == IF s.req.kind \in {"read", "skip", "sub"} THEN s.req.rem ELSE 0

LM == INSTANCE LenMachine WITH
        MaxRem <- 1000000, FieldMax <- 65535, LOff <- Off,
        pc <- AbsPc(st),
        rem <- st.lim - st.pos,
        arem <- st.aend - st.apos,
        prem <- IF DataPhase(st) THEN 0 ELSE st.pend - st.ppos,
        len <- AbsLen(st),
        alen <- IF "len" \in DOMAIN st.cur THEN st.cur.len ELSE 0,
        need <- AbsNeed(st),
        ops <- AbsOps(st),
        minl <- IF KnownP(st) THEN MinLen(st.ptype) ELSE 0,
        hdr <- IF DataPhase(st) THEN DataMinHdr(st.flags) ELSE 4,
        hasL <- DataPhase(st) /\ FlagL(st.flags),
        hasO <- DataPhase(st) /\ FlagO(st.flags),
        osz <- IF "osize" \in DOMAIN st.hdr THEN st.hdr.osize ELSE 0,
        used <- IF DataPhase(st) THEN st.pos - st.start ELSE Min(st.pos - st.start, 2),
        req <- AbsReq(st),
        reqrem <- AbsReqRem(st)

RefinesLen == [][LM!Next]_vars
\* LenMachine!Progress (a lexicographic rank that every abstract step decreases, shown for inputs of any
\* length) leaves out "bookkeeping" steps that do not move the abstract state.  Of those the Decoder machine
\* takes at most a fixed number in a row: each one moves strictly forward in this order of its program counters.
PcOrder0(p) ==
  CASE p = "flags" -> 1 [] p = "version" -> 2 [] p = "reserved" -> 3 [] p = "dispatch" -> 4 [] p = "c_unused" -> 5
    [] p = "c_bits" -> 6 [] p = "c_hdr" -> 7 [] p = "c_len" -> 8 [] p = "c_carve" -> 9 [] p = "a_hdr" -> 10
    [] p = "a_len" -> 11 [] p = "a_vendor" -> 12 [] p = "a_hidden" -> 13 [] p = "a_type" -> 14 [] p = "a_min" -> 15
    [] p = "a_field" -> 16 [] p = "d_min" -> 17 [] p = "d_fields" -> 18 [] p = "d_offset" -> 19 [] p = "d_skip" -> 20
    [] p = "d_extent" -> 21 [] p = "d_payload" -> 22 [] p = "c_first" -> 23 [] p = "c_collect" -> 24 [] p = "g_done" -> 25
    [] p = "done" -> 26
AbsUnmoved ==
  /\ AbsPc(st') = AbsPc(st) /\ st'.lim - st'.pos = st.lim - st.pos /\ st'.aend - st'.apos = st.aend - st.apos
  /\ (IF DataPhase(st') THEN 0 ELSE st'.pend - st'.ppos) = (IF DataPhase(st) THEN 0 ELSE st.pend - st.ppos)
  /\ AbsNeed(st') = AbsNeed(st) /\ AbsOps(st') = AbsOps(st)
\* (an unknown attribute type is reported by a step that returns to a_hdr without moving the abstract state:
\*  the abstraction went to a_hdr one step earlier; it ranks just below a_hdr)
PcOrder(s) == IF s.pc = "a_type" /\ ~KnownP(s) THEN 19 ELSE 2 * PcOrder0(s.pc)
IdleAdvances == [][AbsUnmoved => PcOrder(st') > PcOrder(st)]_vars
AbsProgress == [][LM!Progress]_vars

\* and the abstract state of every reachable Decoder state satisfies the abstract machine's invariant
AbsInv == LM!Safe /\ LM!TypeOK

\* one line per finished behaviour, replayed against the implementation
Export ==
  st.pc = "done" =>
    PrintT(<<"REPLAY", ToJson([mode |-> st.mode, in |-> st.in,
                               opts |-> <<st.opts.res, st.opts.ver, st.opts.unu>>,
                               t |-> st.ptype, res |-> st.res.t, path |-> trail])>>)
=============================================================================
