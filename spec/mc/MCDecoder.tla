----------------------------- MODULE MCDecoder -----------------------------
(***************************************************************************)
(* Model checking the Decoder machine.                                     *)
(*                                                                         *)
(* The input is chosen nondeterministically in Init from a BOUNDARY        *)
(* GRAMMAR selected by the constant Family (every guard of the decoder at  *)
(* -1 / exact / +1, every flag combination, every AVP kind around its      *)
(* minimum length, every placement of good and bad records).  Next is the  *)
(* machine's Step, split by program counter into named actions so that     *)
(* TLC's coverage shows which parts of the decoder were exercised.         *)
(*                                                                         *)
(* TLC checks the invariants of Decoder in every state of every run, and   *)
(* prints one REPLAY line per finished run (input, options, expected       *)
(* result): those behaviours are replayed against the real crate.          *)
(***************************************************************************)
EXTENDS Decoder, Json, TLC

CONSTANT Family

VARIABLE st

---------------------------------------------------------------------------
\* building blocks of the grammars
B(x) == IF x THEN 1 ELSE 0
FlagWord(t, l, s, o, p, ver, resv) ==
  t * 256 + l * 512 + s * 4096 + o * 16384 + p * 32768 + ver * 16 + resv

Ids == <<0, 1, 0, 2>>                       \* tunnel 1, session 2
NsNr == <<0, 3, 0, 4>>
CtlFlags == FlagWord(1, 1, 1, 0, 0, 2, 0)

Ctl(flags, length, body) == Be16(flags) \o Be16(length) \o Ids \o NsNr \o body
CtlExact(body) == Ctl(CtlFlags, 12 + Len(body), body)

\* AVP record with explicit header fields
Rec(o1low6, len, vendor, t, payload) ==
  << ((len \div 256) % 4) * 64 + o1low6, len % 256 >> \o Be16(vendor) \o Be16(t) \o payload
Good(t, payload) == Rec(1, 6 + Len(payload), 0, t, payload)

RecMT == Good(0, <<0, 1>>)                   \* Message Type = SCCRQ
RecHost == Good(7, <<65, 66>>)               \* Host Name "AB"
RecBadHost == Good(7, << >>)                 \* undecodable: empty Host Name
RecUnknown == Good(20, <<1, 2, 3>>)          \* unassigned attribute type
RecVendor == Rec(1, 8, 9, 7, <<65, 66>>)     \* vendor specific
RecHidden == Rec(3, 9, 0, 7, <<9, 9, 9>>)    \* hidden
RecShort == Rec(1, 5, 0, 7, << >>)           \* length field below 6
RecOverrun == Rec(1, 40, 0, 7, <<65>>)       \* length field beyond the data
RecBadMT == Good(0, <<0, 5>>)                \* Message Type with unassigned code

RecordClasses == <<RecMT, RecHost, RecBadHost, RecUnknown, RecVendor, RecHidden, RecShort, RecOverrun>>

\* all sequences over 1..n of length 0..k
RECURSIVE SeqsUpTo(_, _)
SeqsUpTo(n, k) ==
  IF k = 0 THEN {<< >>}
  ELSE LET shorter == SeqsUpTo(n, k - 1)
       IN shorter \cup { Append(s, i) : s \in {x \in shorter : Len(x) = k - 1}, i \in 1..n }

RECURSIVE CatClasses(_)
CatClasses(ix) == IF ix = << >> THEN << >> ELSE RecordClasses[Head(ix)] \o CatClasses(Tail(ix))

OptSets == { [res |-> r, ver |-> v, unu |-> u] : r \in BOOLEAN, v \in BOOLEAN, u \in BOOLEAN }
FewOpts == { StrictOpts, [res |-> FALSE, ver |-> FALSE, unu |-> FALSE] }

\* content patterns for payloads of n octets
Pattern(kind, n) ==
  CASE kind = "zero" -> Zeros(n)
    [] kind = "text" -> [i \in 1..n |-> IF i % 2 = 1 /\ i <= 4 THEN 0 ELSE IF i <= 4 THEN 1 ELSE 65]
    [] kind = "high" -> [i \in 1..n |-> 255]

---------------------------------------------------------------------------
\* The grammars.  Each is a set of initial decoder states.

\* every T/L/S/O/P combination x version x reserved x options x truncation
FramingInputs ==
  { LET w == FlagWord(t, l, s, o, p, ver, resv)
        ctlTail == Be16(20) \o Ids \o NsNr \o RecMT
        dataLen == 2 + 2 * l + 4 + 4 * s + 2 * o + 2
        dataTail == (IF l = 1 THEN Be16(dataLen) ELSE << >>) \o Ids
                     \o (IF s = 1 THEN NsNr ELSE << >>) \o (IF o = 1 THEN <<0, 0>> ELSE << >>)
                     \o <<170, 187>>
        full == Be16(w) \o (IF t = 1 THEN ctlTail ELSE dataTail)
    IN InitMessage(Take(full, IF cut = 99 THEN Len(full) ELSE cut), opts, 0)
    : t \in {0, 1}, l \in {0, 1}, s \in {0, 1}, o \in {0, 1}, p \in {0, 1},
      ver \in {2, 3}, resv \in {0, 1, 1024}, opts \in OptSets, cut \in {99, 1, 2, 7} }

\* control Length field against the octets available
CtlLenInputs ==
  { InitMessage(Take(Ctl(CtlFlags, len, RecMT \o RecHost \o <<1, 2, 3>>), avail), opts, 0)
    : len \in (0..14) \cup (19..32) \cup {65535}, avail \in {12, 13} \cup (19..31), opts \in FewOpts }

\* one AVP record: wire length x hidden x vendor x type x what follows x wrapper
AvpRecInputs ==
  { LET payload == <<0, 1, 65>>                \* fit = 9
        rec == Rec(1 + 2 * h, len, vendor, t, payload)
        body == (IF wrap = "ctl" THEN RecMT ELSE << >>) \o rec \o follow
    IN IF wrap = "ctl" THEN InitMessage(CtlExact(body), StrictOpts, 0) ELSE InitAvps(body)
    : len \in (0..10) \cup {1023}, h \in {0, 1}, vendor \in {0, 9}, t \in {0, 7, 20, 39, 65535},
      follow \in {<< >>, RecHost, <<1, 2, 3>>}, wrap \in {"ctl", "bare"} }

\* every AVP kind (and two unassigned numbers) at payload length 0 .. min+2, three contents
KindInputs ==
  { IF mode = "payload" THEN InitPayload(Pattern(pat, n), t, 0, n)
    ELSE InitAvps(Good(t, Pattern(pat, n)))
    : t \in AttributeTypes \cup {20, 40}, n \in 0..5, pat \in {"zero", "text", "high"},
      mode \in {"payload", "bare"} }
  \cup
  { InitPayload(Pattern(pat, MinLen(t) + d), t, 0, MinLen(t) + d)
    : t \in AttributeTypes, d \in 0..2, pat \in {"zero", "text", "high"} }
  \cup
  { InitPayload(Pattern(pat, MinLen(t) - 1), t, 0, MinLen(t) - 1)
    : t \in {x \in AttributeTypes : MinLen(x) >= 1}, pat \in {"zero", "text"} }

\* every placement of good and bad records (C15)
LoopInputs(k) ==
  { InitMessage(CtlExact(CatClasses(ix)), StrictOpts, 0) : ix \in SeqsUpTo(Len(RecordClasses), k) }
  \cup { InitAvps(CatClasses(ix)) : ix \in SeqsUpTo(Len(RecordClasses), k - 1) }
  \cup { InitMessage(CtlExact(RecBadMT \o RecHost), StrictOpts, 0),
         InitMessage(CtlExact(RecMT \o RecBadMT), StrictOpts, 0) }

\* data messages: Length and offset size against the octets available
DataInputs ==
  { LET hdr == 2 + 2 * B(lenSel # "none") + 4 + 4 * s + 2 * B(offSel # "none")
        avail == nData          \* octets after the offset field
        osize == CASE offSel = "none" -> 0 [] offSel = "zero" -> 0 [] offSel = "one" -> 1
                   [] offSel = "availm1" -> avail - 1 [] offSel = "avail" -> avail
                   [] offSel = "availp1" -> avail + 1 [] offSel = "max" -> 65535
        total == hdr + nData
        len == CASE lenSel = "none" -> 0 [] lenSel = "zero" -> 0 [] lenSel = "hdrm1" -> hdr - 1
                 [] lenSel = "hdr" -> hdr [] lenSel = "hdrp1" -> hdr + 1
                 [] lenSel = "hdrposz" -> hdr + (IF osize <= avail THEN osize ELSE 0)
                 [] lenSel = "total" -> total [] lenSel = "totalp1" -> total + 1
                 [] lenSel = "totalp" -> total + 3 [] lenSel = "max" -> 65535
        w == FlagWord(0, B(lenSel # "none"), s, B(offSel # "none"), p, 2, 0)
        msg == Be16(w) \o (IF lenSel # "none" THEN Be16(len) ELSE << >>) \o Be16(id) \o Be16(id)
                 \o (IF s = 1 THEN NsNr ELSE << >>)
                 \o (IF offSel # "none" THEN Be16(osize) ELSE << >>)
                 \o [i \in 1..nData |-> 160 + i] \o trail
    IN InitMessage(msg, StrictOpts, 0)
    : id \in {0, 65535}, s \in {0, 1}, p \in {0, 1},
      lenSel \in {"none", "zero", "hdrm1", "hdr", "hdrp1", "hdrposz", "total", "totalp1", "totalp", "max"},
      offSel \in {"none", "zero", "one", "availm1", "avail", "availp1", "max"},
      nData \in {1, 2, 5}, trail \in {<< >>, <<7, 7, 7>>} }

Inputs ==
  CASE Family = "framing" -> FramingInputs
    [] Family = "ctllen"  -> CtlLenInputs
    [] Family = "avprec"  -> AvpRecInputs
    [] Family = "kinds"   -> KindInputs
    [] Family = "loop3"   -> LoopInputs(3)
    [] Family = "loop4"   -> LoopInputs(4)
    [] Family = "data"    -> DataInputs
    [] Family = "all"     -> FramingInputs \cup CtlLenInputs \cup AvpRecInputs \cup KindInputs
                               \cup LoopInputs(3) \cup DataInputs

---------------------------------------------------------------------------
Init == st \in Inputs

Flags       == st.pc = "flags" /\ st' = Step(st)
Version     == st.pc = "version" /\ st' = Step(st)
Reserved    == st.pc = "reserved" /\ st' = Step(st)
Dispatch    == st.pc = "dispatch" /\ st' = Step(st)
CtlUnused   == st.pc = "c_unused" /\ st' = Step(st)
CtlBits     == st.pc = "c_bits" /\ st' = Step(st)
CtlHeader   == st.pc = "c_hdr" /\ st' = Step(st)
CtlLength   == st.pc = "c_len" /\ st' = Step(st)
CtlCarve    == st.pc = "c_carve" /\ st' = Step(st)
CtlFirst    == st.pc = "c_first" /\ st' = Step(st)
CtlCollect  == st.pc = "c_collect" /\ st' = Step(st)
AvpHeader   == st.pc = "a_hdr" /\ st' = Step(st)
AvpLength   == st.pc = "a_len" /\ st' = Step(st)
AvpVendor   == st.pc = "a_vendor" /\ st' = Step(st)
AvpHidden   == st.pc = "a_hidden" /\ st' = Step(st)
AvpType     == st.pc = "a_type" /\ st' = Step(st)
AvpMin      == st.pc = "a_min" /\ st' = Step(st)
AvpField    == st.pc = "a_field" /\ st' = Step(st)
DataMin     == st.pc = "d_min" /\ st' = Step(st)
DataFields  == st.pc = "d_fields" /\ st' = Step(st)
DataOffset  == st.pc = "d_offset" /\ st' = Step(st)
DataSkip    == st.pc = "d_skip" /\ st' = Step(st)
DataExtent  == st.pc = "d_extent" /\ st' = Step(st)
DataPayload == st.pc = "d_payload" /\ st' = Step(st)
GreedyDone  == st.pc = "g_done" /\ st' = Step(st)

Next ==
  \/ Flags \/ Version \/ Reserved \/ Dispatch
  \/ CtlUnused \/ CtlBits \/ CtlHeader \/ CtlLength \/ CtlCarve \/ CtlFirst \/ CtlCollect
  \/ AvpHeader \/ AvpLength \/ AvpVendor \/ AvpHidden \/ AvpType \/ AvpMin \/ AvpField
  \/ DataMin \/ DataFields \/ DataOffset \/ DataSkip \/ DataExtent \/ DataPayload
  \/ GreedyDone

Spec == Init /\ [][Next]_st /\ WF_st(Next)

---------------------------------------------------------------------------
\* safety, checked in every state
Safe == StateOk(st)

TypeOk == st.pc \in PcValues

\* the AVP loop makes progress: the region shrinks by at least 6 octets per record
LoopProgress == [][(st.pc = "a_hdr" /\ st'.pc = "a_len") => Variant(st') <= Variant(st) - 6]_st
\* the position never moves backwards
Monotone == [][st'.pos >= st.pos /\ st'.apos >= st.apos]_st

\* liveness: every run terminates
Terminates == <>(st.pc = "done")

\* one line per finished behaviour, replayed against the implementation
Export ==
  st.pc = "done" =>
    PrintT(<<"REPLAY", ToJson([mode |-> st.mode, in |-> st.in,
                               opts |-> <<st.opts.res, st.opts.ver, st.opts.unu>>,
                               t |-> st.ptype, res |-> st.res.t])>>)
=============================================================================
