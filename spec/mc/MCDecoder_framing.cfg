SPECIFICATION Spec
CONSTANT Off = {}
CONSTANT Family = "framing"
INVARIANTS Safe TypeOk Export
PROPERTIES LoopProgress Monotone Terminates
CHECK_DEADLOCK FALSE
