INIT Init
NEXT Next
CONSTANT MaxRem = 48
CONSTANT FieldMax = 65535
CONSTANT LOff = {}
INVARIANT IndInv
