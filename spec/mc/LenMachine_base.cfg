INIT Init
NEXT Next
CONSTANT MaxRem = 48
CONSTANT LOff = {}
INVARIANT IndInv
