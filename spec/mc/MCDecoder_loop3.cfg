SPECIFICATION Spec
CONSTANT Off = {}
CONSTANT Family = "loop3"
INVARIANTS Safe TypeOk Export
PROPERTIES LoopProgress Monotone Terminates
CHECK_DEADLOCK FALSE
