SPECIFICATION Spec
CONSTANT Off = {}
CONSTANT Family = "hide"
INVARIANTS Safe RevealHide DeclEqualsIter RejectsBad Export
PROPERTIES Terminates
CHECK_DEADLOCK FALSE
