----------------------------- MODULE MCEncoder -----------------------------
(***************************************************************************)
(* Model checking the Encoder machine over a catalogue of values: every    *)
(* AVP kind with boundary field values, optional parts present / absent,   *)
(* control messages of 0..3 AVPs, data messages over the product of their  *)
(* optional fields, size boundaries of the 10-bit and 16-bit length        *)
(* fields, started from an empty and from a non-empty writer.              *)
(*                                                                         *)
(* Invariants in every state: only-append, every back-patch inside the     *)
(* value being encoded (C09); at the end: length fields exact, AVPs tile   *)
(* the body, oversize refused (C07); and the SPECIFICATION's decoder maps  *)
(* the emitted octets back to the value (C03, C04) -- so the two halves    *)
(* of the specification are checked against each other before either is    *)
(* used as an oracle for the crate.                                        *)
(***************************************************************************)
EXTENDS Encoder, Decoder, Json, TLC

CONSTANT Family

VARIABLES st, prefix, trail

---------------------------------------------------------------------------
\* value catalogue
Bytes4Choices == { <<0, 0, 0, 0>>, <<255, 255, 255, 255>>, <<0, 0, 0, 64>>, <<0, 0, 0, 128>>, <<1, 2, 3, 4>> }
FixChoices(n) ==
  IF n = 4 THEN Bytes4Choices ELSE { Zeros(n), [i \in 1..n |-> 255], [i \in 1..n |-> i] }
TextChoices == { <<65>>, <<104, 105>>, <<195, 169, 226, 130, 172>> }       \* "A", "hi", e-acute + euro sign

\* set of value tuples an operation can contribute
OpChoices(o, few) ==
  CASE o.op = "u8"   -> { <<0>>, <<255>> }
    [] o.op = "u16"  -> IF few THEN { <<0>>, <<65535>> } ELSE { <<0>>, <<1>>, <<256>>, <<65535>> }
    [] o.op = "fix"  -> { <<x>> : x \in (IF few THEN { Zeros(o.n), [i \in 1..o.n |-> 255] } ELSE FixChoices(o.n)) }
    [] o.op = "skip" -> { << >> }
    [] o.op = "enum" -> { <<n>> : n \in Names(o.tab) }
    [] o.op = "rest" -> { <<x>> : x \in { <<0>>, <<255, 0, 7>> } }
    [] o.op = "utf8" -> { <<x>> : x \in TextChoices }
    [] o.op = "optutf8" -> { << << >> >> } \cup { << <<x>> >> : x \in TextChoices }
    [] o.op = "opterr" -> { << << >>, << >> >> }
                            \cup { << <<n>>, << >> >> : n \in {"Ok", "Generic", "UnknownMandatoryAvp"} }
                            \cup { << <<"Generic">>, <<x>> >> : x \in TextChoices }

RECURSIVE ProgValues(_, _, _)
ProgValues(prog, i, few) ==
  IF i > Len(prog) THEN { << >> }
  ELSE { a \o b : a \in OpChoices(prog[i], few), b \in ProgValues(prog, i + 1, few) }

KindValues(t) == { Avp(KindName(t), f) : f \in ProgValues(Prog(t), 1, Len(Prog(t)) > 2) }

HiddenValues == { HiddenAvp(t, v) : t \in {0, 7, 20, 65535}, v \in { << >>, <<1>>, Zeros(16), [i \in 1..17 |-> i] } }

\* (TLC cannot build a SET of AVP values of different kinds -- normalising it would compare an
\* integer field with a string field -- so heterogeneous catalogues are SEQUENCES chosen by index.)

\* out of the round-trip domain, still encodable
OddAvps == << Avp("HostName", << << >> >>), Avp("VendorName", << << >> >>),
              Avp("Q931CauseCode", <<1, 2, << << >> >> >>),
              Avp("ResultCode", <<1, <<"Generic">>, << << >> >> >>) >>

MT(n) == Avp("MessageType", <<n>>)
Ctl(len, tid, avps) ==
  [k |-> "Control", length |-> len, tunnel_id |-> tid, session_id |-> 65535 - tid, ns |-> 1, nr |-> 65535, avps |-> avps]

SomeAvps == << Avp("HostName", <<<<65, 66>>>>), Avp("ProtocolVersion", <<1, 0>>),
               Avp("ResultCode", <<2, <<"Generic">>, <<<<104, 105>>>>>>), HiddenAvp(7, Zeros(16)),
               Avp("SequencingRequired", << >>),
               Avp("CallErrors", <<Zeros(4), Zeros(4), Zeros(4), Zeros(4), Zeros(4), <<0, 0, 0, 9>>>>) >>

\* AVP lists of control messages, by shape
CtlAvps(shape, i, j) ==
  CASE shape = 0 -> << >>
    [] shape = 1 -> <<MT("Hello")>>
    [] shape = 2 -> <<MT("StartControlConnectionRequest"), SomeAvps[i]>>
    [] shape = 3 -> <<MT("StopControlConnectionNotification"), SomeAvps[i], SomeAvps[j]>>
    [] shape = 4 -> <<SomeAvps[i]>>          \* first AVP not a Message Type: encodable, not decodable

DataValues ==
  { LET data == [i \in 1..n |-> 200 + i]
        hdr == 2 + (IF lenSel = "none" THEN 0 ELSE 2) + 4 + (IF s THEN 4 ELSE 0) + (IF off = << >> THEN 0 ELSE 2)
    IN [k |-> "Data", prio |-> p,
        length |-> CASE lenSel = "none" -> << >> [] lenSel = "exact" -> <<hdr + n>> [] lenSel = "wrong" -> <<hdr + n + 1>>,
        tunnel_id |-> id, session_id |-> 65535 - id,
        ns_nr |-> IF s THEN << <<65535, 0>> >> ELSE << >>,
        offset |-> off, data |-> data]
    : p \in BOOLEAN, lenSel \in {"none", "exact", "wrong"}, id \in {0, 1}, s \in BOOLEAN,
      off \in {<< >>, <<0>>, <<1>>, <<2>>}, n \in {0, 1, 2, 17} }

Big(n) == Avp("HostName", <<[i \in 1..n |-> i % 256]>>)
\* a control message whose encoding is exactly `total` octets
CtlOfSize(total) ==
  LET full == (total - 12 - 8) \div 1023
      rest == (total - 12 - 8) - full * 1023              \* 0 or 7..1022 for the sizes used
  IN Ctl(0, 1, <<MT("Hello")>> \o [i \in 1..full |-> Big(1017)] \o (IF rest >= 7 THEN <<Big(rest - 6)>> ELSE << >>))

SizeValues ==
  << <<"avp", Big(1016)>>, <<"avp", Big(1017)>>, <<"avp", Big(1018)>>, <<"avp", Big(1019)>>,
     <<"msg", Ctl(0, 1, <<MT("Hello"), Big(1017)>>)>>, <<"msg", Ctl(0, 1, <<MT("Hello"), Big(1018)>>)>>,
     <<"avp", Avp("ResultCode", <<1, <<"Generic">>, <<[i \in 1..1013 |-> 65]>>>>)>>,
     <<"avp", Avp("ResultCode", <<1, <<"Generic">>, <<[i \in 1..1014 |-> 65]>>>>)>> >>

HugeValues == << <<"msg", CtlOfSize(65534)>>, <<"msg", CtlOfSize(65535)>>, <<"msg", CtlOfSize(65536)>> >>

Prefixes == IF Family \in {"huge"} THEN { << >> } ELSE { << >>, <<9, 8, 7>> }

---------------------------------------------------------------------------
Start(kind, v) == \E p \in Prefixes : prefix = p /\ st = EncInit(p, kind, v) /\ trail = << >>

InitAvpKinds == \E t \in AttributeTypes : \E a \in KindValues(t) : Start("avp", a)
InitHidden   == \E a \in HiddenValues : Start("avp", a)
InitOdd      == \E i \in 1..Len(OddAvps) : Start("avp", OddAvps[i])
InitControl  == \E len \in {0, 12}, tid \in {0, 65535}, shape \in 0..4, i \in 1..Len(SomeAvps), j \in 1..Len(SomeAvps) :
                  /\ (shape \in {0, 1} => i = 1 /\ j = 1) /\ (shape \in {2, 4} => j = 1)
                  /\ Start("msg", Ctl(len, tid, CtlAvps(shape, i, j)))
InitData     == \E d \in DataValues : Start("msg", d)
InitSizes    == \E i \in 1..Len(SizeValues) : Start(SizeValues[i][1], SizeValues[i][2])
InitHuge     == \E i \in 1..Len(HugeValues) : Start(HugeValues[i][1], HugeValues[i][2])

Init ==
  CASE Family = "avps"  -> InitAvpKinds \/ InitHidden \/ InitOdd
    [] Family = "msgs"  -> InitControl \/ InitData
    [] Family = "sizes" -> InitSizes
    [] Family = "huge"  -> InitHuge
    [] Family = "all"   -> InitAvpKinds \/ InitHidden \/ InitOdd \/ InitControl \/ InitData \/ InitSizes

MsgStart   == st.pc = "m_start"  /\ st' = EStep(st) /\ trail' = Append(trail, st.pc) /\ UNCHANGED prefix
MsgLen     == st.pc = "m_len"    /\ st' = EStep(st) /\ trail' = Append(trail, st.pc) /\ UNCHANGED prefix
MsgHeader  == st.pc = "m_hdr"    /\ st' = EStep(st) /\ trail' = Append(trail, st.pc) /\ UNCHANGED prefix
AvpNext    == st.pc = "a_next"   /\ st' = EStep(st) /\ trail' = Append(trail, st.pc) /\ UNCHANGED prefix
AvpVendor  == st.pc = "a_vendor" /\ st' = EStep(st) /\ trail' = Append(trail, st.pc) /\ UNCHANGED prefix
AvpBody    == st.pc = "a_body"   /\ st' = EStep(st) /\ trail' = Append(trail, st.pc) /\ UNCHANGED prefix
AvpPatch   == st.pc = "a_patch"  /\ st' = EStep(st) /\ trail' = Append(trail, st.pc) /\ UNCHANGED prefix
MsgPatch   == st.pc = "m_patch"  /\ st' = EStep(st) /\ trail' = Append(trail, st.pc) /\ UNCHANGED prefix
DataWrite  == st.pc = "d_write"  /\ st' = EStep(st) /\ trail' = Append(trail, st.pc) /\ UNCHANGED prefix

Next == MsgStart \/ MsgLen \/ MsgHeader \/ AvpNext \/ AvpVendor \/ AvpBody \/ AvpPatch \/ MsgPatch \/ DataWrite

Spec == Init /\ [][Next]_<<st, prefix, trail>> /\ WF_<<st, prefix, trail>>(Next)

---------------------------------------------------------------------------
Safe == EStateOk(st, prefix)
Oversize == OversizeRefused(st)

\* the buffer never shrinks, and except for the two patched octets nothing already written changes
AppendOrPatch ==
  [][/\ Len(st'.buf) >= Len(st.buf)
     /\ \A i \in 1..Len(st.buf) :
          st'.buf[i] # st.buf[i] => (st'.patch # << >> /\ i > st'.patch.off /\ i <= st'.patch.off + st'.patch.n)]_<<st, prefix, trail>>

Terminates == <>(st.pc = "done")

Emitted == Drop(st.buf, st.base)

\* domains of C03 / C04, on specification values
RECURSIVE VarNonEmpty(_, _, _, _)
VarNonEmpty(prog, f, pi, fi) ==
  IF pi > Len(prog) THEN TRUE
  ELSE LET o == prog[pi] IN
       CASE o.op \in {"rest", "utf8"} -> f[fi] # << >> /\ VarNonEmpty(prog, f, pi + 1, fi + 1)
         [] o.op = "optutf8" -> (f[fi] = << >> \/ f[fi][1] # << >>) /\ VarNonEmpty(prog, f, pi + 1, fi + 1)
         [] o.op = "opterr"  -> (f[fi + 1] = << >> \/ f[fi + 1][1] # << >>) /\ VarNonEmpty(prog, f, pi + 1, fi + 2)
         [] o.op = "skip"    -> VarNonEmpty(prog, f, pi + 1, fi)
         [] OTHER            -> VarNonEmpty(prog, f, pi + 1, fi + 1)
InAvpDomain(a) == 6 + ValueLength(a) <= MaxAvpLength /\ (IsHidden(a) \/ VarNonEmpty(Prog(TypeOfKind(a.k)), a.f, 1, 1))

\* C03 / C04 on the specification: decode(encode(v)) = v (up to the stated normalisation)
RoundTrip ==
  (st.pc = "done" /\ ~st.panic) =>
    IF st.kind = "avp"
      THEN InAvpDomain(st.val) =>
             LET d == DecodeAvps(Emitted) IN d.items = <<OkItem(st.val)>> /\ d.rem = 0
    ELSE IF st.val.k = "Control"
      THEN ((\A i \in 1..Len(st.val.avps) : InAvpDomain(st.val.avps[i]))
              /\ (st.val.avps # << >> => st.val.avps[1].k = "MessageType")) =>
             LET d == DecodeMessage(Emitted, StrictOpts)
             IN d.res = [t |-> "ok", v |-> [st.val EXCEPT !.length = Len(Emitted)]] /\ d.rem = 0
    ELSE LET m == st.val IN
         (m.data # << >> /\ (m.length = << >> \/ m.length[1] = Len(Emitted))
            /\ (m.offset = << >> \/ m.offset[1] <= Len(m.data) - 1)) =>
           LET d == DecodeMessage(Emitted, StrictOpts)
           IN d.res = [t |-> "ok", v |-> [m EXCEPT !.offset = << >>,
                                                   !.data = Drop(m.data, IF m.offset = << >> THEN 0 ELSE m.offset[1])]]
              /\ d.rem = 0

\* Refinement: the positions of every step taken here are a step of the integer abstraction EncLenMachine,
\* whose Safe is proved inductive for writers, AVP counts and payloads of any size (Apalache).
AbsKind == IF st.kind = "avp" THEN "avp" ELSE IF st.val.k = "Control" THEN "ctl" ELSE "data"
ELM == INSTANCE EncLenMachine WITH
         MaxStart <- 100000000, MaxAvps <- 100000000, PayMax <- 100000000, AvpLimit <- MaxAvpLength,
         MsgLimit <- MaxMessageLength, EOff <- {},
         pc <- st.pc, kind <- AbsKind, wlen <- Len(st.buf), base <- st.base, start <- st.start,
         lenpos <- st.lenpos, astart <- st.astart, left <- Len(st.todo),
         ptype <- IF st.patch = << >> THEN "none" ELSE IF st.pc = "done" THEN "msg" ELSE "avp",
         poff <- IF st.patch = << >> THEN 0 ELSE st.patch.off,
         pval <- IF st.patch = << >> THEN 0 ELSE st.patch.val,
         panic <- st.panic
RefinesEncLen == [][ELM!Next]_<<st, prefix, trail>>
AbsEncInv == ELM!Safe /\ ELM!IndInv

\* the direct (fast) big-step definition used by trace validation equals what the machine computes
FastEqualsMachine ==
  st.pc = "done" =>
    LET f == EncodeInto(prefix, st.kind, st.val) IN
    f.panic = st.panic /\ (~st.panic => f.buf = st.buf)

\* C06 cross-check inside the specification: the machine's AVP output equals the direct definition
AvpDirect == (st.pc = "done" /\ ~st.panic /\ st.kind = "avp") => Emitted = AvpRecord(st.val)

Export ==
  st.pc = "done" =>
    PrintT(<<"REPLAY", ToJson([kind |-> st.kind, v |-> st.val, prefix |-> prefix, panic |-> st.panic, path |-> trail])>>)
=============================================================================
