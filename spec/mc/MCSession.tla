------------------------------ MODULE MCSession -----------------------------
(***************************************************************************)
(* Composition: two independent sessions (think: two threads), each with   *)
(* ONE writer that receives several encodes and ONE reader that decodes    *)
(* messages back to back from what was written, interleaved arbitrarily;   *)
(* plus the process's stdout/stderr `out`, which no action changes.        *)
(*                                                                         *)
(*  C09  the shared writer always equals the concatenation of the          *)
(*       individual encodings of what was sent                             *)
(*  C08  repeated decoding yields exactly the messages sent, in order      *)
(*  C19  no action writes to `out`; each session's state is a function of  *)
(*       its own history only, whatever the interleaving                   *)
(***************************************************************************)
EXTENDS Encoder, Decoder, SequencesExt, Json, TLC

CONSTANTS MaxSend, Sessions

VARIABLES wbuf, sent, rpos, recv, out

vars == <<wbuf, sent, rpos, recv, out>>

MT(n) == Avp("MessageType", <<n>>)
\* messages with a declared length (control; data with exact Length), as a sequence chosen by index
Msgs == <<
  [k |-> "Control", length |-> 0, tunnel_id |-> 1, session_id |-> 2, ns |-> 3, nr |-> 4, avps |-> << >>],
  [k |-> "Control", length |-> 0, tunnel_id |-> 65535, session_id |-> 0, ns |-> 0, nr |-> 1,
   avps |-> <<MT("Hello"), Avp("HostName", <<<<104, 105>>>>)>>],
  [k |-> "Control", length |-> 0, tunnel_id |-> 7, session_id |-> 7, ns |-> 7, nr |-> 7,
   avps |-> <<MT("StopControlConnectionNotification"), Avp("ResultCode", <<1, <<"Generic">>, << >>>>), HiddenAvp(9, Zeros(16))>>],
  [k |-> "Data", prio |-> TRUE, length |-> <<11>>, tunnel_id |-> 5, session_id |-> 6, ns_nr |-> << >>, offset |-> << >>, data |-> <<1, 2, 3>>],
  [k |-> "Data", prio |-> FALSE, length |-> <<13>>, tunnel_id |-> 0, session_id |-> 65535, ns_nr |-> << <<1, 2>> >>, offset |-> << >>, data |-> <<255>>] >>

Expected(m, octets) == IF m.k = "Control" THEN [m EXCEPT !.length = Len(octets)] ELSE m

Init ==
  /\ wbuf = [s \in Sessions |-> << >>] /\ sent = [s \in Sessions |-> << >>]
  /\ rpos = [s \in Sessions |-> 0] /\ recv = [s \in Sessions |-> << >>]
  /\ out = << >>

Send(s, i) ==
  /\ Len(sent[s]) < MaxSend
  /\ LET e == EncodeInto(wbuf[s], "msg", Msgs[i]) IN
       /\ ~e.panic
       /\ wbuf' = [wbuf EXCEPT ![s] = e.buf]
       /\ sent' = [sent EXCEPT ![s] = Append(@, i)]
  /\ UNCHANGED <<rpos, recv, out>>

DecodeNext(s) ==
  /\ rpos[s] < Len(wbuf[s])
  /\ LET d == DecodeFrom(wbuf[s], StrictOpts, rpos[s]) IN
       /\ d.res.t = "ok"
       /\ recv' = [recv EXCEPT ![s] = Append(@, d.res.v)]
       /\ rpos' = [rpos EXCEPT ![s] = Len(wbuf[s]) - d.rem]
  /\ UNCHANGED <<wbuf, sent, out>>

Next == \E s \in Sessions : (\E i \in 1..Len(Msgs) : Send(s, i)) \/ DecodeNext(s)

Spec == Init /\ [][Next]_vars

---------------------------------------------------------------------------
RECURSIVE CatEnc(_)
CatEnc(ix) == IF ix = << >> THEN << >> ELSE EncodeMessage(Msgs[Head(ix)]).buf \o CatEnc(Tail(ix))

\* C09: encoding several messages into one writer yields the concatenation of their encodings
WriterIsConcat == \A s \in Sessions : wbuf[s] = CatEnc(sent[s])

\* C08: what has been decoded so far is exactly a prefix of what was sent, value for value
RECURSIVE ExpectedSeq(_)
ExpectedSeq(ix) ==
  IF ix = << >> THEN << >>
  ELSE <<Expected(Msgs[Head(ix)], EncodeMessage(Msgs[Head(ix)]).buf)>> \o ExpectedSeq(Tail(ix))
BackToBack == \A s \in Sessions : IsPrefix(recv[s], ExpectedSeq(sent[s]))
\* ... and the reader stands at a message boundary; when it has consumed everything, all came out
AtBoundary == \A s \in Sessions : rpos[s] = Len(CatEnc(SubSeq(sent[s], 1, Len(recv[s]))))
AllReceived == \A s \in Sessions : rpos[s] = Len(wbuf[s]) => Len(recv[s]) = Len(sent[s])
\* a pending message can always be decoded (no deadlock with data left)
CanProgress == \A s \in Sessions : rpos[s] < Len(wbuf[s]) => ENABLED DecodeNext(s)

\* C19: nothing is ever written to stdout / stderr
OutputSilent == [][out' = out]_vars
\* C19: one session's step never changes another session's state
CallsIndependent ==
  [][\A s \in Sessions : (wbuf'[s] # wbuf[s] \/ recv'[s] # recv[s] \/ rpos'[s] # rpos[s]) =>
       \A t \in Sessions \ {s} : wbuf'[t] = wbuf[t] /\ recv'[t] = recv[t] /\ rpos'[t] = rpos[t] /\ sent'[t] = sent[t]]_vars

Export ==
  (\A s \in Sessions : Len(sent[s]) = MaxSend /\ rpos[s] = Len(wbuf[s])) =>
    PrintT(<<"REPLAY", ToJson([bufs |-> [s \in Sessions |-> wbuf[s]],
                               msgs |-> [s \in Sessions |-> [i \in 1..Len(sent[s]) |-> Msgs[sent[s][i]]]]])>>)
=============================================================================
