------------------------------ MODULE MCReader ------------------------------
(***************************************************************************)
(* Exhaustive exploration of the Reader contract machine (C18): slices of  *)
(* length 0..MaxLen with distinguishable octets, every sequence of up to   *)
(* Depth operations: fixed-width reads of 1/2/4/8 octets, skip, sub-reader *)
(* (and operations on the sub-readers), bytes(n) with n = 0, 1, all that   *)
(* remains, and one more than remains (which must return nothing).         *)
(* The operation history is exported; every explored sequence is replayed  *)
(* on the real SliceReader.                                                *)
(***************************************************************************)
EXTENDS Reader, Json, TLC

CONSTANTS MaxLen, Depth

VARIABLE hist

Slices == { [i \in 1..n |-> 16 * n + i] : n \in 0..MaxLen }

Init == RInit(Slices) /\ hist = << >>

Sizes(rem) == {0, 1, rem} \cup (IF rem > 1 THEN {rem - 1} ELSE {})

Do(id, op, n) == Call(id, op, n) /\ hist' = Append(hist, <<id - 1, op, n>>)

ReadOp  == \E id \in 1..Len(rd) : \E n \in ReadWidths : Do(id, "read", n)
SkipOp  == \E id \in 1..Len(rd) : \E n \in Sizes(RemOf(rd[id])) : Do(id, "skip", n)
SubOp   == \E id \in 1..Len(rd) : \E n \in Sizes(RemOf(rd[id])) : Do(id, "sub", n)
BytesOp == \E id \in 1..Len(rd) : \E n \in Sizes(RemOf(rd[id])) \cup {RemOf(rd[id]) + 1} : Do(id, "bytes", n)

Next == Len(hist) < Depth /\ (ReadOp \/ SkipOp \/ SubOp \/ BytesOp)

Spec == Init /\ [][Next]_<<src, rd, last, hist>>

---------------------------------------------------------------------------
Inside == CursorsInside
NoOverlap == Disjoint

\* what a call hands out is exactly the next octets, and the position advances by exactly n
ResultIsNextOctets ==
  last # << >> =>
    /\ (last.op = "read" => last.ret = Slice(src, rd[last.id].from - last.n, last.n))
    /\ (last.op = "bytes" /\ last.ret # << >> => last.ret[1] = Slice(src, rd[last.id].from - last.n, last.n))
    /\ (last.op = "bytes" /\ last.ret = << >> => last.n > last.rem)
    /\ (last.op = "sub" => RemOf(rd[last.ret]) = last.n /\ rd[last.ret].to = rd[last.id].from)

\* every octet of the slice is handed out at most once along any history:
\* the readers' remaining octets never exceed what the slice still holds
Conservation ==
  LET total == LET S[i \in 0..Len(rd)] == IF i = 0 THEN 0 ELSE S[i - 1] + RemOf(rd[i]) IN S[Len(rd)]
  IN total <= Len(src)

Advance ==
  [][\A i \in 1..Len(rd) : rd'[i].from >= rd[i].from /\ rd'[i].to = rd[i].to]_<<src, rd, last, hist>>

Export ==
  (Len(hist) = Depth \/ (Len(hist) > 0 /\ ~ENABLED Next)) =>
    PrintT(<<"REPLAY", ToJson([slice |-> src, ops |-> hist])>>)
=============================================================================
