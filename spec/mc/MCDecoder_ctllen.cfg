SPECIFICATION Spec
CONSTANT Off = {}
CONSTANT Family = "ctllen"
INVARIANTS Safe TypeOk Export
PROPERTIES LoopProgress Monotone Terminates
CHECK_DEADLOCK FALSE
