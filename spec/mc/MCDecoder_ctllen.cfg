SPECIFICATION Spec
CONSTANT Off = {}
CONSTANT Family = "ctllen"
INVARIANTS Safe TypeOk OptionsOk Normalises SuffixIndependent Export
PROPERTIES LoopProgress Monotone Terminates
CHECK_DEADLOCK FALSE
