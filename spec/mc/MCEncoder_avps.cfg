SPECIFICATION Spec
CONSTANT Off = {}
CONSTANT Family = "avps"
INVARIANTS Safe AbsEncInv Oversize RoundTrip AvpDirect FastEqualsMachine Export
PROPERTIES AppendOrPatch RefinesEncLen Terminates
CHECK_DEADLOCK FALSE
