SPECIFICATION Spec
CONSTANT MaxLen = 9
CONSTANT Depth = 4
INVARIANTS Inside NoOverlap Conservation ResultIsNextOctets Export
PROPERTIES Advance
CHECK_DEADLOCK FALSE
