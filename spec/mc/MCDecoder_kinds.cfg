SPECIFICATION Spec
CONSTANT Off = {}
CONSTANT Family = "kinds"
INVARIANTS Safe TypeOk Export
PROPERTIES LoopProgress Monotone Terminates
CHECK_DEADLOCK FALSE
