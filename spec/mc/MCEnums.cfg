SPECIFICATION Spec
CONSTANT Off = {}
INVARIANT EnumsExact
CHECK_DEADLOCK FALSE
