SPECIFICATION Spec
CONSTANT MaxRem = 20
CONSTANT FieldMax = 36
CONSTANT LOff = {}
INVARIANTS TypeOK Safe IndInv
PROPERTIES ProgressProp
CHECK_DEADLOCK FALSE
