SPECIFICATION Spec
CONSTANT MaxRem = 48
CONSTANT LOff = {}
INVARIANTS TypeOK Safe IndInv
CHECK_DEADLOCK FALSE
