SPECIFICATION Spec
CONSTANT Off = {}
CONSTANT Family = "avprec"
INVARIANTS Safe TypeOk Export
PROPERTIES LoopProgress Monotone Terminates
CHECK_DEADLOCK FALSE
