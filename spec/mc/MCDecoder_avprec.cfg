SPECIFICATION Spec
CONSTANT Off = {}
CONSTANT Family = "avprec"
INVARIANTS Safe TypeOk AbsInv OptionsOk Normalises SuffixIndependent Export
PROPERTIES LoopProgress Monotone Terminates RefinesLen IdleAdvances AbsProgress
CHECK_DEADLOCK FALSE
