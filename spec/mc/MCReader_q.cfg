SPECIFICATION Spec
CONSTANT MaxLen = 4
CONSTANT Depth = 3
INVARIANTS Inside NoOverlap Conservation ResultIsNextOctets Export
PROPERTIES Advance
CHECK_DEADLOCK FALSE
