INIT IndInit
NEXT Next
CONSTANT MaxRem = 0
CONSTANT LOff = {}
INVARIANT IndInv
