INIT IndInit
NEXT Next
CONSTANT MaxRem = 0
CONSTANT FieldMax = 65535
CONSTANT LOff = {}
INVARIANT IndInv
