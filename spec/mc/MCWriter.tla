------------------------------ MODULE MCWriter ------------------------------
(***************************************************************************)
(* Exhaustive exploration of the Writer contract machine (C18): every      *)
(* sequence of up to Depth appends and positional overwrites, the          *)
(* overwrites at every offset from 0 to one past the end (so: inside,      *)
(* touching the last octet, and sticking out by one).  The history is      *)
(* exported and replayed on the real VecWriter.                            *)
(***************************************************************************)
EXTENDS Writer, Json, TLC

CONSTANT Depth

VARIABLE hist

Init == WInit /\ hist = << >>

Chunks == { << >>, <<1>>, <<2, 3>> }
Marks == { << >>, <<7>>, <<8, 9>> }

AppendOp == \E bs \in Chunks : WAppend(bs) /\ hist' = Append(hist, <<"bytes", bs, 0>>)
PatchOp  == \E bs \in Marks : \E off \in 0..(Len(buf) + 1) : WPatch(bs, off) /\ hist' = Append(hist, <<"at", bs, off>>)

Next == Len(hist) < Depth /\ (AppendOp \/ PatchOp)

Spec == Init /\ [][Next]_<<buf, wlast, hist>>

\* an overwrite that does not lie inside the written data is refused and changes nothing;
\* one that does changes exactly the addressed octets
PatchExact ==
  [][wlast'.op = "patch" =>
       LET h == hist'[Len(hist')] bs == h[2] off == h[3] IN
       IF off + Len(bs) <= Len(buf)
         THEN /\ ~wlast'.refused /\ Len(buf') = Len(buf)
              /\ \A i \in 1..Len(buf) : buf'[i] = IF i > off /\ i <= off + Len(bs) THEN bs[i - off] ELSE buf[i]
         ELSE wlast'.refused /\ buf' = buf]_<<buf, wlast, hist>>

AppendExact ==
  [][wlast'.op = "append" => buf' = buf \o hist'[Len(hist')][2]]_<<buf, wlast, hist>>

Export ==
  Len(hist) = Depth => PrintT(<<"REPLAY", ToJson([ops |-> hist])>>)
=============================================================================
