SPECIFICATION Spec
CONSTANT Depth = 3
INVARIANTS Export
PROPERTIES PatchExact AppendExact AppendOnlyGrows PatchKeepsLength
CHECK_DEADLOCK FALSE
