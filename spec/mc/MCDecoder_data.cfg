SPECIFICATION Spec
CONSTANT Off = {}
CONSTANT Family = "data"
INVARIANTS Safe TypeOk Export
PROPERTIES LoopProgress Monotone Terminates
CHECK_DEADLOCK FALSE
