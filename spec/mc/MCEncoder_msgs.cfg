SPECIFICATION Spec
CONSTANT Off = {}
CONSTANT Family = "msgs"
INVARIANTS Safe Oversize RoundTrip AvpDirect Export
PROPERTIES AppendOrPatch Terminates
CHECK_DEADLOCK FALSE
