------------------------------ MODULE MCHiding ------------------------------
(***************************************************************************)
(* Model checking the hiding construction with a TOY hash (16 octets out,  *)
(* cheap) so that TLC can be exhaustive over plaintext sizes:              *)
(*                                                                         *)
(*  Family "hide":  every plaintext length giving 1..4 blocks, every       *)
(*     length padding 0..20, three secrets -- RevealHide (C11), the        *)
(*     declarative definition of RFC 2661 s4.3 equals the in-place loops   *)
(*     of the code in both directions, HiddenLength (C12).                 *)
(*  Family "reveal": the reveal MACHINE stepped from hidden values whose   *)
(*     decrypted original-length field takes every boundary value against  *)
(*     every value size, for several attribute types -- every reader       *)
(*     request within the decrypted octets, no underflow, result an AVP of *)
(*     the announced type or an error (C13).                               *)
(***************************************************************************)
EXTENDS Hiding, Json, TLC

CONSTANT Family

VARIABLES rs, par, trail

\* 16 octets depending on every octet of m and on its length
Toy(m) ==
  LET sum == IF m = << >> THEN 0 ELSE LET S[i \in 0..Len(m)] == IF i = 0 THEN 0 ELSE (S[i - 1] * 31 + m[i] + i) % 65521 IN S[Len(m)]
  IN [i \in 1..16 |-> (sum * (2 * i + 1) + 7 * i + Len(m)) % 256]

Secrets == { << >>, <<1>>, <<200, 100, 50>> }
RV == <<222, 173, 190, 239>>
AP == [i \in 1..16 |-> 100 + i]

HostOf(n) == Avp("HostName", <<[i \in 1..n |-> (i * 7) % 256]>>)

\* ---- Family "hide": parameters (value length, length-padding length, secret)
HideParams == { [n |-> n, lp |-> l, secret |-> s] : n \in 1..62, l \in {0, 1, 13, 14, 15, 16, 20}, s \in Secrets }
              \cup { [n |-> n, lp |-> l, secret |-> << >>] : n \in {1, 12, 13, 14}, l \in 0..20 }

\* ---- Family "reveal": the decrypted plaintext is chosen directly
RevealParams ==
  { [t |-> t, size |-> size, len |-> len, secret |-> <<5>>] :
      t \in {0, 1, 7, 8, 20, 34, 39, 65535},
      size \in {0, 1, 15, 16, 17, 32, 48},
      len \in (0..24) \cup {36, 37, 38, 52, 53, 54, 1023, 1024, 65535} }
  \cup
  \* every payload length 0..30 handed to every per-type reader (two blocks: 30 payload octets available)
  { [t |-> t, size |-> 32, len |-> len, secret |-> <<5>>] : t \in AttributeTypes, len \in 6..36 }

PlainFor(p) ==
  \* first two octets = the original-length field, then a payload most kinds accept
  [i \in 1..p.size |-> CASE i = 1 -> p.len \div 256 [] i = 2 -> p.len % 256
                         [] i \in {3, 5} -> 0 [] i \in {4, 6} -> 1 [] OTHER -> 65]

HiddenFor(p) ==
  IF p.size % Chunk = 0 /\ p.size > 0
    THEN HiddenAvp(p.t, EncryptDecl(Toy, PlainFor(p), p.t, p.secret, RV))
    ELSE HiddenAvp(p.t, [i \in 1..p.size |-> i])           \* empty or misaligned

Init ==
  CASE Family = "hide" ->
         \E p \in HideParams :
           /\ par = p /\ trail = << >>
           /\ rs = RInit(Hide(Toy, HostOf(p.n), p.secret, RV, [i \in 1..p.lp |-> 255 - i], AP).v, p.secret, RV)
    [] Family = "reveal" ->
         \E p \in RevealParams : par = p /\ trail = << >> /\ rs = RInit(HiddenFor(p), p.secret, RV)

RKind    == rs.pc = "r_kind"    /\ rs' = RStep(Toy, rs) /\ trail' = Append(trail, rs.pc) /\ UNCHANGED par
REmpty   == rs.pc = "r_empty"   /\ rs' = RStep(Toy, rs) /\ trail' = Append(trail, rs.pc) /\ UNCHANGED par
RAlign   == rs.pc = "r_align"   /\ rs' = RStep(Toy, rs) /\ trail' = Append(trail, rs.pc) /\ UNCHANGED par
RDecrypt == rs.pc = "r_decrypt" /\ rs' = RStep(Toy, rs) /\ trail' = Append(trail, rs.pc) /\ UNCHANGED par
RLen     == rs.pc = "r_len"     /\ rs' = RStep(Toy, rs) /\ trail' = Append(trail, rs.pc) /\ UNCHANGED par
RFit     == rs.pc = "r_fit"     /\ rs' = RStep(Toy, rs) /\ trail' = Append(trail, rs.pc) /\ UNCHANGED par
RPayload == rs.pc = "r_payload" /\ rs' = RStep(Toy, rs) /\ trail' = Append(trail, rs.pc) /\ UNCHANGED par

Next == RKind \/ REmpty \/ RAlign \/ RDecrypt \/ RLen \/ RFit \/ RPayload

Spec == Init /\ [][Next]_<<rs, par, trail>> /\ WF_<<rs, par, trail>>(Next)

---------------------------------------------------------------------------
Safe == RStateOk(rs)
Terminates == <>(rs.pc = "done")

\* C11 on the specification: revealing what was hidden gives the original back
RevealHide ==
  (Family = "hide" /\ rs.pc = "done") => rs.res = OkItem(HostOf(par.n))

\* C12 on the specification: the declarative definition equals the in-place loops, both ways;
\* the hidden value has the stated length
DeclEqualsIter ==
  (Family = "hide" /\ rs.pc = "r_decrypt") =>
     LET v == rs.a.f[2]
         lp == [i \in 1..par.lp |-> 255 - i]
         plain == Plaintext(AvpPayload(HostOf(par.n)), lp, AP)
     IN /\ EncryptIter(Toy, plain, 7, par.secret, RV) = v
        /\ DecryptIter(Toy, v, 7, par.secret, RV) = plain
        /\ DecryptDecl(Toy, v, 7, par.secret, RV) = plain
        /\ Len(v) = HiddenLength(AvpPayload(HostOf(par.n)), lp)
        /\ Len(v) % Chunk = 0
        /\ \A i \in 1..NBlocks(v) : Block(v, i) = CipherBlock(Toy, plain, 7, par.secret, RV, i)

\* C13: rejected when empty, misaligned, or the declared original does not fit
RejectsBad ==
  (Family = "reveal" /\ rs.pc = "done") =>
     /\ (par.size = 0 \/ par.size % Chunk # 0) => rs.res.t = "err"
     /\ (par.size > 0 /\ par.size % Chunk = 0 /\ (par.len < 6 \/ par.len > 1023 \/ par.len - 6 > par.size - 2))
          => rs.res.t = "err"

Export ==
  rs.pc = "done" =>
    IF Family = "reveal"
      THEN PrintT(<<"REPLAY", ToJson([plain |-> PlainFor(par), t |-> par.t, size |-> par.size, len |-> par.len,
                                     res |-> rs.res.t, path |-> trail])>>)
      ELSE PrintT(<<"REPLAY", ToJson([n |-> par.n, lp |-> par.lp, secret |-> par.secret, path |-> trail])>>)
=============================================================================
