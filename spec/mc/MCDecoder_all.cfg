SPECIFICATION Spec
CONSTANT Off = {}
CONSTANT Family = "all"
INVARIANTS Safe TypeOk Export
PROPERTIES LoopProgress Monotone Terminates
CHECK_DEADLOCK FALSE
