SPECIFICATION Spec
CONSTANT Off = {}
CONSTANT Family = "sizes"
INVARIANTS Safe AbsEncInv Oversize RoundTrip AvpDirect FastEqualsMachine Export
PROPERTIES AppendOrPatch RefinesEncLen Terminates
CHECK_DEADLOCK FALSE
