SPECIFICATION Spec
CONSTANT Off = {}
CONSTANT Family = "sizes"
INVARIANTS Safe Oversize RoundTrip AvpDirect FastEqualsMachine Export
PROPERTIES AppendOrPatch Terminates
CHECK_DEADLOCK FALSE
