------------------------------ MODULE Encoder ------------------------------
(***************************************************************************)
(* The encoder of rl2tp as a small-step machine over a writer buffer.      *)
(*                                                                         *)
(* Values have the shape the Decoder produces:                             *)
(*   AVP      [k |-> kind name, f |-> <<field values>>]                    *)
(*   Control  [k |-> "Control", length, tunnel_id, session_id, ns, nr, avps]*)
(*   Data     [k |-> "Data", prio, length, tunnel_id, session_id, ns_nr,   *)
(*             offset, data]      (options as << >> / <<x>>)               *)
(*                                                                         *)
(* The machine follows the code (control_message.rs::write, avp.rs::write, *)
(* data_message.rs::write): remember where the value starts, append a      *)
(* two-octet placeholder, append the rest, then BACK-PATCH the placeholder *)
(* with the measured length -- or panic when the length does not fit its   *)
(* field (AVP: 10 bits; message: 16 bits).  Ghost field `patch` records    *)
(* each positional overwrite so that "every overwrite lies inside the      *)
(* value being encoded" is an invariant TLC checks (C09), and `base` is    *)
(* the buffer length when the encode started (only-append, C09).           *)
(*                                                                         *)
(* EncodeMessage / EncodeAvp are DEFINED as runs of the machine from the   *)
(* empty buffer; EncodeInto from any buffer.                               *)
(***************************************************************************)
EXTENDS Naturals, Sequences, Bytes, Enums, AvpTable, WriterCore

MaxAvpLength == 1023
MaxMessageLength == 65535

---------------------------------------------------------------------------
\* payload octets of an AVP value, by its field program (inverse of decoding)
RECURSIVE EncFields(_, _, _, _)
EncFields(prog, f, pi, fi) ==
  IF pi > Len(prog) THEN << >>
  ELSE
    LET o == prog[pi] IN
    CASE o.op = "u8"   -> <<f[fi]>> \o EncFields(prog, f, pi + 1, fi + 1)
      [] o.op = "u16"  -> Be16(f[fi]) \o EncFields(prog, f, pi + 1, fi + 1)
      [] o.op \in {"fix", "rest", "utf8"} -> f[fi] \o EncFields(prog, f, pi + 1, fi + 1)
      [] o.op = "skip" -> Zeros(o.n) \o EncFields(prog, f, pi + 1, fi)
      [] o.op = "enum" -> Be16(CodeOf(o.tab, f[fi])) \o EncFields(prog, f, pi + 1, fi + 1)
      [] o.op = "optutf8" -> (IF f[fi] = << >> THEN << >> ELSE f[fi][1]) \o EncFields(prog, f, pi + 1, fi + 1)
      [] o.op = "opterr" ->
           (IF f[fi] = << >> THEN << >>
            ELSE Be16(CodeOf("ErrorType", f[fi][1])) \o (IF f[fi + 1] = << >> THEN << >> ELSE f[fi + 1][1]))
           \o EncFields(prog, f, pi + 1, fi + 2)

IsHidden(a) == a.k = "Hidden"
AvpTypeOf(a) == IF IsHidden(a) THEN a.f[1] ELSE TypeOfKind(a.k)
AvpPayload(a) == IF IsHidden(a) THEN a.f[2] ELSE EncFields(Prog(TypeOfKind(a.k)), a.f, 1, 1)

\* AVP::get_length: the payload length
ValueLength(a) == Len(AvpPayload(a))

\* first two octets of an AVP header: M always set, H only on hidden AVPs
AvpFlagsAndLength(hidden, len) ==
  << ((len \div 256) % 4) * 64 + 1 + (IF hidden THEN 2 ELSE 0), len % 256 >>

ControlFlagWord == 256 + 512 + 4096 + 2 * 16          \* T, L, S, version 2
DataFlagWord(d) ==
  (IF d.length # << >> THEN 512 ELSE 0) + (IF d.ns_nr # << >> THEN 4096 ELSE 0)
    + (IF d.offset # << >> THEN 16384 ELSE 0) + (IF d.prio THEN 32768 ELSE 0) + 2 * 16

---------------------------------------------------------------------------
EncInit(prefix, kind, v) ==
  [ buf |-> prefix, base |-> Len(prefix), kind |-> kind, val |-> v,
    pc |-> CASE kind = "avp" -> "a_next" [] v.k = "Control" -> "m_start" [] OTHER -> "d_write",
    start |-> Len(prefix), lenpos |-> 0, astart |-> 0,
    todo |-> CASE kind = "avp" -> <<v>> [] v.k = "Control" -> v.avps [] OTHER -> << >>,
    cur |-> << >>, panic |-> FALSE, patch |-> << >>, spans |-> << >> ]

Put(s, bs, pc) == [s EXCEPT !.buf = @ \o bs, !.pc = pc, !.patch = << >>]

EStep(s) ==
  CASE s.pc = "m_start" -> [Put(s, Be16(ControlFlagWord), "m_len") EXCEPT !.start = Len(s.buf)]
    [] s.pc = "m_len"   -> [Put(s, <<0, 0>>, "m_hdr") EXCEPT !.lenpos = Len(s.buf)]
    [] s.pc = "m_hdr"   -> Put(s, Be16(s.val.tunnel_id) \o Be16(s.val.session_id)
                                   \o Be16(s.val.ns) \o Be16(s.val.nr), "a_next")
    [] s.pc = "a_next"  ->
         IF s.todo = << >>
           THEN [s EXCEPT !.pc = IF s.kind = "avp" THEN "done" ELSE "m_patch", !.patch = << >>]
           ELSE [Put(s, <<0, 0>>, "a_vendor") EXCEPT !.cur = Head(s.todo), !.todo = Tail(s.todo),
                                                    !.astart = Len(s.buf)]
    [] s.pc = "a_vendor" -> Put(s, <<0, 0>>, "a_body")
    [] s.pc = "a_body"   -> Put(s, Be16(AvpTypeOf(s.cur)) \o AvpPayload(s.cur), "a_patch")
    [] s.pc = "a_patch"  ->
         LET len == Len(s.buf) - s.astart IN
         IF len > MaxAvpLength THEN [s EXCEPT !.pc = "done", !.panic = TRUE, !.patch = << >>]
         ELSE LET r == WApply(s.buf, "patch", AvpFlagsAndLength(IsHidden(s.cur), len), s.astart)
              IN [s EXCEPT !.buf = r.buf, !.pc = "a_next",
                           !.patch = [off |-> s.astart, n |-> 2, refused |-> r.refused, val |-> len],
                           !.spans = Append(@, <<s.astart, len>>)]
    [] s.pc = "m_patch"  ->
         LET len == Len(s.buf) - s.start IN
         IF len > MaxMessageLength THEN [s EXCEPT !.pc = "done", !.panic = TRUE, !.patch = << >>]
         ELSE LET r == WApply(s.buf, "patch", Be16(len), s.lenpos)
              IN [s EXCEPT !.buf = r.buf, !.pc = "done",
                           !.patch = [off |-> s.lenpos, n |-> 2, refused |-> r.refused, val |-> len]]
    [] s.pc = "d_write"  ->
         LET d == s.val IN
         Put(s, Be16(DataFlagWord(d))
                  \o (IF d.length # << >> THEN Be16(d.length[1]) ELSE << >>)
                  \o Be16(d.tunnel_id) \o Be16(d.session_id)
                  \o (IF d.ns_nr # << >> THEN Be16(d.ns_nr[1][1]) \o Be16(d.ns_nr[1][2]) ELSE << >>)
                  \o (IF d.offset # << >> THEN Be16(d.offset[1]) ELSE << >>)
                  \o d.data, "done")
    [] s.pc = "done" -> s

RECURSIVE ERunK(_, _)
ERunK(s, k) ==          \* doubling recursion, see Decoder!RunK
  IF s.pc = "done" THEN s
  ELSE IF k = 0 THEN EStep(s)
  ELSE LET t == ERunK(s, k - 1) IN IF t.pc = "done" THEN t ELSE ERunK(t, k - 1)
ERun(s) == ERunK(s, 20)

---------------------------------------------------------------------------
\* big-step, by running the machine: [panic |-> BOOLEAN, buf |-> the writer's octets afterwards]
EncodeByMachine(prefix, kind, v) == LET f == ERun(EncInit(prefix, kind, v)) IN [panic |-> f.panic, buf |-> f.buf]

\* octets of one AVP record, computed directly
AvpRecord(a) ==
  LET p == AvpPayload(a) IN
  AvpFlagsAndLength(IsHidden(a), 6 + Len(p)) \o <<0, 0>> \o Be16(AvpTypeOf(a)) \o p

\* The same result computed directly (records concatenated in a balanced way): linear instead of
\* quadratic in the number of AVPs, which matters for messages of thousands of AVPs.  MCEncoder checks
\* on the whole value catalogue that it equals the machine's result (FastEqualsMachine); when the
\* machine panics the buffer is whatever had been written and is not compared.
EncodeInto(prefix, kind, v) ==
  IF kind = "avp"
    THEN IF 6 + ValueLength(v) > MaxAvpLength THEN [panic |-> TRUE, buf |-> prefix]
         ELSE [panic |-> FALSE, buf |-> prefix \o AvpRecord(v)]
  ELSE IF v.k = "Control"
    THEN LET recs == [i \in 1..Len(v.avps) |-> AvpRecord(v.avps[i])]
             body == Concat(recs)
         IN IF (\E i \in 1..Len(recs) : Len(recs[i]) > MaxAvpLength) \/ 12 + Len(body) > MaxMessageLength
              THEN [panic |-> TRUE, buf |-> prefix]
              ELSE [panic |-> FALSE,
                    buf |-> prefix \o Be16(ControlFlagWord) \o Be16(12 + Len(body)) \o Be16(v.tunnel_id)
                              \o Be16(v.session_id) \o Be16(v.ns) \o Be16(v.nr) \o body]
  ELSE EncodeByMachine(prefix, kind, v)
EncodeMessage(m) == EncodeInto(<< >>, "msg", m)
EncodeAvp(a) == EncodeInto(<< >>, "avp", a)

---------------------------------------------------------------------------
\* Invariants of every state of every run

\* C09: what was in the writer before is untouched; the buffer only grows
OnlyAppend(s, prefix) == Len(s.buf) >= s.base /\ Take(s.buf, s.base) = prefix

\* C09: every positional overwrite lies inside the value being encoded and inside the data
PatchInsideFrame(s) ==
  s.patch # << >> =>
    /\ ~s.patch.refused
    /\ s.patch.off >= s.base
    /\ s.patch.off + s.patch.n <= Len(s.buf)

\* independent walk over AVP length fields: do they tile b[from+1 .. Len(b)] exactly?
\* (position after one record; iterated by doubling
\* so that thousands of records do not mean thousands of stack frames)
TileStep(b, pos) ==          \* Len(b) + 1 stands for "unusable length field"
  IF pos >= Len(b) THEN pos
  ELSE IF Len(b) - pos < 6 THEN Len(b) + 1
  ELSE LET len == (b[pos + 1] \div 64) * 256 + b[pos + 2]
       IN IF len >= 6 /\ pos + len <= Len(b) THEN pos + len ELSE Len(b) + 1
RECURSIVE TileRunK(_, _, _)
TileRunK(b, pos, k) ==
  IF pos >= Len(b) THEN pos
  ELSE IF k = 0 THEN TileStep(b, pos)
  ELSE LET t == TileRunK(b, pos, k - 1) IN IF t >= Len(b) THEN t ELSE TileRunK(b, t, k - 1)
Tiles(b, from) == TileRunK(b, from, 16) = Len(b)

\* C07 at the end of a run that did not panic
LengthsExact(s) ==
  (s.pc = "done" /\ ~s.panic) =>
    LET out == Drop(s.buf, s.base) IN
    CASE s.kind = "avp" -> Tiles(out, 0) /\ Len(out) = 6 + ValueLength(s.val)
      [] s.val.k = "Control" -> U16At(out, 2) = Len(out) /\ Tiles(out, 12)
      [] OTHER -> TRUE

\* C07: oversize is refused, never wrapped -- and nothing else is refused
OversizeRefused(s) ==
  s.pc = "done" =>
    LET avps == CASE s.kind = "avp" -> <<s.val>> [] s.val.k = "Control" -> s.val.avps [] OTHER -> << >>
        big == \E i \in 1..Len(avps) : 6 + ValueLength(avps[i]) > MaxAvpLength
        total == 12 + (IF avps = << >> THEN 0 ELSE Len(Concat([i \in 1..Len(avps) |-> AvpRecord(avps[i])])))
    IN s.panic <=> (big \/ (s.kind = "msg" /\ s.val.k = "Control" /\ total > MaxMessageLength))

EStateOk(s, prefix) == OnlyAppend(s, prefix) /\ PatchInsideFrame(s) /\ LengthsExact(s)
=============================================================================
