------------------------------ MODULE Conform ------------------------------
(***************************************************************************)
(* Conformance relation between recorded implementation events and the     *)
(* specification.  For every event kind an operator V<Kind>(ev) returns    *)
(* the sequence of TAGS naming each way in which the recorded outcome is   *)
(* not one the specification allows (<< >> = the event is a behaviour of   *)
(* the specification).  The orchestrator maps (event kind, tag) to the     *)
(* properties it contradicts.                                              *)
(*                                                                         *)
(* Soundness rules (DESIGN.md s5): error identity is never compared here   *)
(* (only in VFault, where the fault is single); after an Err the reader    *)
(* position is not constrained; the specification does not prescribe       *)
(* which reader / writer calls are made, only that each satisfies the      *)
(* contract.                                                               *)
(***************************************************************************)
EXTENDS Decoder, ReaderCore, TLC

T(cond, tag) == IF cond THEN <<tag>> ELSE << >>

Has(ev, field) == field \in DOMAIN ev

---------------------------------------------------------------------------
\* equality of projected implementation values with specification values
\* (kind first, so that differently shaped values are never compared)
AvpEq(a, b) == a.k = b.k /\ a.f = b.f
AvpsEq(x, y) == Len(x) = Len(y) /\ \A i \in 1..Len(x) : AvpEq(x[i], y[i])

MsgEq(a, b) ==
  /\ a.k = b.k
  /\ IF a.k = "Control"
       THEN /\ a.length = b.length /\ a.tunnel_id = b.tunnel_id /\ a.session_id = b.session_id
            /\ a.ns = b.ns /\ a.nr = b.nr /\ AvpsEq(a.avps, b.avps)
       ELSE /\ a.prio = b.prio /\ a.length = b.length /\ a.tunnel_id = b.tunnel_id
            /\ a.session_id = b.session_id /\ a.ns_nr = b.ns_nr /\ a.offset = b.offset
            /\ a.data = b.data

\* control messages equal up to the Length field
MsgEqUpToLength(a, b) ==
  /\ a.k = b.k
  /\ IF a.k = "Control" THEN MsgEq([a EXCEPT !.length = b.length], b) ELSE MsgEq(a, b)

ItemEq(a, b) == a.t = b.t /\ (a.t = "ok" => AvpEq(a.v, b.v))
ItemsEq(x, y) == Len(x) = Len(y) /\ \A i \in 1..Len(x) : ItemEq(x[i], y[i])

Finished(out) == out.t \in {"ok", "err", "list"}     \* not panic / abort / timeout

OptsOf(ev) ==
  IF Has(ev, "entry") /\ ev.entry = "default" THEN DefaultOpts
  ELSE [res |-> ev.opts[1], ver |-> ev.opts[2], unu |-> ev.opts[3]]

\* C19: the call put nothing on stdout / stderr
IoTags(ev) == T(Has(ev, "io") /\ ev.io # <<0, 0>>, "io")

---------------------------------------------------------------------------
\* Reader calls recorded by the monitoring reader, checked against the contract machine.
\* call = <<reader id (0-based), op, n, octets remaining before the call, x>>
RECURSIVE CallTags(_, _, _, _)
CallTags(src, rd, calls, i) ==
  IF i > Len(calls) THEN << >>
  ELSE
    LET c == calls[i]
        id == c[1] + 1
        op == c[2]
        n == c[3]
    IN IF id \notin 1..Len(rd) THEN <<"harness-reader-id">>
       ELSE IF c[4] # RemOf(rd[id]) THEN <<"harness-reader-rem">>
       ELSE IF ~Enabled(rd, id, op, n) THEN <<"reader-contract">>
       ELSE IF op = "read" /\ c[5] # Returns(src, rd, id, op, n) THEN <<"harness-reader-ret">>
       ELSE IF op = "sub" /\ c[5] + 1 # Returns(src, rd, id, op, n) THEN <<"harness-reader-ret">>
       ELSE IF op = "bytes" /\ ((c[5] = 1) # (n <= RemOf(rd[id]))) THEN <<"harness-reader-ret">>
       ELSE IF Poisons(rd, id, op, n) THEN << >>       \* position unconstrained from here on
       ELSE CallTags(src, After(rd, id, op, n), calls, i + 1)

ReaderTags(ev, src) == IF Has(ev, "calls") THEN CallTags(src, RdInit(src), ev.calls, 1) ELSE << >>

---------------------------------------------------------------------------
\* Message::try_read / try_read_validate
MsgOutcomeTags(sp, out, rem) ==
  \* (a panic on an input the specification ACCEPTS is also a failure to accept it -- C05's "accepts iff";
  \*  a panic on an input the specification rejects is C01's business only)
  IF ~Finished(out) THEN <<"outcome-" \o out.t>> \o T(sp.res.t = "ok", "unaccepted")
  ELSE IF sp.res.t = "ok"
    THEN IF out.t # "ok" THEN <<"verdict">>
         ELSE T(~MsgEq(sp.res.v, out.v), "value") \o T(rem # sp.rem, "rem")
    ELSE IF out.t # "err" THEN <<"verdict">>
         ELSE T(out.v = << >>, "empty-errors")
              \o T(sp.perrec /\ Len(out.v) # Len(sp.res.v), "error-count")

\* same outcome from two readers (C02); shape = "msg" | "list" | "item"
OutSame(shape, a, b) ==
  /\ a.out.t = b.out.t
  /\ CASE a.out.t = "ok" /\ shape = "msg"  -> MsgEq(a.out.v, b.out.v) /\ a.rem = b.rem
       [] a.out.t = "ok" /\ shape = "item" -> AvpEq(a.out.v, b.out.v) /\ a.rem = b.rem
       [] a.out.t = "err"  -> a.out.v = b.out.v
       [] a.out.t = "list" -> ItemsEq(a.out.v, b.out.v)
                              /\ \A i \in 1..Len(a.out.v) : a.out.v[i].t = "err" => a.out.v[i].v = b.out.v[i].v
       [] OTHER -> TRUE

\* one result (rdr given in the case) or the list `outs` (rdr = "all")
Runs(ev) == IF Has(ev, "outs") THEN ev.outs ELSE <<ev>>

RECURSIVE ConcatTags(_, _, _)
ConcatTags(F(_), xs, i) == IF i > Len(xs) THEN << >> ELSE F(xs[i]) \o ConcatTags(F, xs, i + 1)

DiffTags(shape, ev) ==
  LET rs == Runs(ev) IN
  T(\E i, j \in 1..Len(rs) : i < j /\ ~OutSame(shape, rs[i], rs[j]), "reader-diff")

\* C08 on the implementation's own result: an accepted message that carries a Length consumed exactly that many
\* octets (whatever the specification thinks of the input)
ConsumedDeclared(in, out, rem) ==
  IF ~Finished(out) \/ out.t # "ok" THEN << >>
  ELSE LET declared == IF out.v.k = "Control" THEN <<out.v.length>> ELSE out.v.length
       IN T(declared # << >> /\ Len(in) - rem # declared[1], "consumed-declared")

VDecode(ev) ==
  LET sp == DecodeMessage(ev.in, OptsOf(ev))
      One(r) == MsgOutcomeTags(sp, r.out, r.rem) \o ConsumedDeclared(ev.in, r.out, r.rem) \o ReaderTags(r, ev.in)
  IN ConcatTags(One, Runs(ev), 1) \o DiffTags("msg", ev) \o IoTags(ev)

\* AVP::try_read_greedy
VDecodeAvps(ev) ==
  LET sp == DecodeAvps(ev.in)
      \* (C05 compares the list element-wise: no list at all differs from any list)
      One(r) == (IF ~Finished(r.out) THEN <<"outcome-" \o r.out.t, "unaccepted">>
                 ELSE T(~ItemsEq(sp.items, r.out.v), "value")
                      \o T(ItemsEq(sp.items, r.out.v) /\ ~sp.stopped /\ r.rem # sp.rem, "rem"))
                \o ReaderTags(r, ev.in)
  IN ConcatTags(One, Runs(ev), 1) \o DiffTags("list", ev) \o IoTags(ev)

\* the public per-type readers
VDecodePayload(ev) ==
  LET One(r) == (IF ~IsKnownType(ev.t) \/ ev.t = 39
                   THEN T(r.out.t # "none", "harness-per-type")
                 ELSE IF ~Finished(r.out) THEN <<"outcome-" \o r.out.t, "unaccepted">>
                 ELSE T(~ItemEq(DecodePayload(ev.t, ev.in), r.out), "value"))
                \o ReaderTags(r, ev.in)
  IN ConcatTags(One, Runs(ev), 1) \o DiffTags("item", ev) \o IoTags(ev)

\* messages decoded back to back from one reader (C08)
RECURSIVE SeqTags(_, _, _, _)
SeqTags(ev, opts, start, i) ==
  IF i > Len(ev.steps)
    THEN \* the implementation stopped: it must have consumed everything or hit an error
         << >>
  ELSE LET st == ev.steps[i]
           sp == DecodeFrom(ev.in, opts, start)
           tags == T(st.start # start, "seq-start") \o MsgOutcomeTags(sp, st.out, st.rem)
       IN IF tags # << >> \/ sp.res.t # "ok" THEN tags
          ELSE SeqTags(ev, opts, Len(ev.in) - sp.rem, i + 1)

VDecodeSeq(ev) == SeqTags(ev, OptsOf(ev), 0, 1) \o IoTags(ev)
=============================================================================
