------------------------------- MODULE ReaderCore ------------------------------
(***************************************************************************)
(* The Reader contract (common/reader.rs) as a machine.                    *)
(*                                                                         *)
(* State: the underlying octets `src` and a sequence `rd` of cursors, one  *)
(* per reader; cursor i covers src[rd[i].from+1 .. rd[i].to].  Reader 1 is *)
(* the root; `subreader` appends a new cursor.                             *)
(*                                                                         *)
(* Operations (a call is a record [id, op, n]):                            *)
(*   read   fixed-width big-endian read of n \in {1,2,4,8} octets.         *)
(*          UNCHECKED: precondition n <= remaining.                        *)
(*   skip   advance by n.  Precondition n <= remaining.                    *)
(*   sub    split off the next n octets as a new reader.                   *)
(*          Precondition n <= remaining.                                   *)
(*   bytes  TOTAL: n <= remaining -> the next n octets, advance by n;      *)
(*          otherwise nothing, and a plain cursor stays where it is.       *)
(*          (For an ARBITRARY conforming reader driven by the decoder,     *)
(*          C02, the position after a refused request is not constrained:  *)
(*          see Poisons and Conform!CallTags.)                             *)
(* The functional core Apply is shared by: the TLC model of the cursor     *)
(* (MCReader, C18), the validation of SliceReader traces (C18), and the    *)
(* validation of every request the real decoder makes of a monitoring      *)
(* reader (C02).                                                           *)
(***************************************************************************)
EXTENDS Naturals, Sequences, Bytes

Cursor(from, to) == [from |-> from, to |-> to]
RemOf(c) == c.to - c.from

RdInit(src) == <<Cursor(0, Len(src))>>

UncheckedOps == {"read", "skip", "sub"}
ReadWidths == {1, 2, 4, 8}

\* is the call enabled (its precondition holds) in state rd?
Enabled(rd, id, op, n) ==
  /\ id \in 1..Len(rd)
  /\ CASE op = "read"  -> n \in ReadWidths /\ n <= RemOf(rd[id])
       [] op = "skip"  -> n <= RemOf(rd[id])
       [] op = "sub"   -> n <= RemOf(rd[id])
       [] op = "bytes" -> TRUE
       [] op = "len"   -> TRUE          \* query (len / is_empty): no effect
       [] OTHER -> FALSE

\* what the call returns: octets for read; <<octets>> or << >> for bytes; the new
\* reader's id for sub; << >> for skip
Returns(src, rd, id, op, n) ==
  LET c == rd[id] IN
  CASE op = "read"  -> Slice(src, c.from, n)
    [] op = "bytes" -> IF n <= RemOf(c) THEN <<Slice(src, c.from, n)>> ELSE << >>
    [] op = "sub"   -> Len(rd) + 1
    [] op = "skip"  -> << >>
    [] op = "len"   -> RemOf(c)

\* successor cursor state
After(rd, id, op, n) ==
  LET c == rd[id] IN
  CASE op \in {"read", "skip"} -> [rd EXCEPT ![id].from = @ + n]
    [] op = "sub"   -> Append([rd EXCEPT ![id].from = @ + n], Cursor(c.from, c.from + n))
    [] op = "bytes" -> IF n <= RemOf(c) THEN [rd EXCEPT ![id].from = @ + n] ELSE rd
    [] op = "len"   -> rd

\* after bytes() returned nothing the position of that cursor is unconstrained
Poisons(rd, id, op, n) == op = "bytes" /\ n > RemOf(rd[id])
=============================================================================
