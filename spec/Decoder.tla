------------------------------ MODULE Decoder ------------------------------
(***************************************************************************)
(* The decoder of rl2tp as a small-step state machine over a byte cursor.  *)
(*                                                                         *)
(* One step per guard / read group of the code (message.rs,                *)
(* control_message.rs, data_message.rs, avp.rs::try_read_greedy,           *)
(* avp/header.rs and the 39 per-type readers, which are the field          *)
(* programs of AvpTable).  The state is one record `s`; Step(s) is the     *)
(* deterministic successor; Run(s) iterates Step to pc = "done"; the       *)
(* big-step operators DecodeMessage / DecodeAvps / DecodePayload are       *)
(* DEFINED as runs of the machine, so what TLC explores step by step and   *)
(* what trace validation uses as oracle are the same definition.           *)
(*                                                                         *)
(* Ghost fields `req` (the unchecked reader request the step issues, with  *)
(* the octets that remained when it was issued) and `sub` (the subtraction *)
(* the step performs) exist so that "every request fits" and "no           *)
(* subtraction underflows" are INVARIANTS that TLC checks, not properties  *)
(* that hold by construction.  Each guard can be switched off through the  *)
(* constant Off to show that the invariants are not vacuous.               *)
(*                                                                         *)
(* Layout (the crate's, see DESIGN.md s3.3): the 16-bit flag word is read  *)
(* big-endian; T = bit 8, L = bit 9, S = bit 12, O = bit 14, P = bit 15,   *)
(* version = bits 4..7, reserved = bits 0,1,2,3,10,11,13.  AVP header:     *)
(* first octet M = bit 0, H = bit 1, reserved bits 2..5, length bits 9..8  *)
(* in bits 7..6; second octet = length bits 7..0; vendor id; attribute     *)
(* type.                                                                   *)
(***************************************************************************)
EXTENDS Naturals, Sequences, Bytes, Utf8, Enums, AvpTable, Errors

CONSTANT Off     \* set of guard names that are switched OFF (fault seeding); {} = the real design

GuardNames == {"Flags2", "CtlHdr10", "CtlLen12", "CtlLenFit", "AvpLen6", "AvpFit",
               "AvpMin", "DataMin", "DataOffsetFit", "DataLenMin", "DataLenFit", "ErrTail2"}
On(g) == g \notin Off

ProtocolVersion == 2
ReservedBits == {0, 1, 2, 3, 10, 11, 13}

FlagT(w) == Bit(w, 8)
FlagL(w) == Bit(w, 9)
FlagS(w) == Bit(w, 12)
FlagO(w) == Bit(w, 14)
FlagP(w) == Bit(w, 15)
FlagVersion(w) == (w \div 16) % 16
FlagReservedOk(w) == \A i \in ReservedBits : ~Bit(w, i)

AllOpts == [res : BOOLEAN, ver : BOOLEAN, unu : BOOLEAN]
StrictOpts  == [res |-> TRUE,  ver |-> TRUE, unu |-> TRUE]
DefaultOpts == [res |-> FALSE, ver |-> TRUE, unu |-> FALSE]

---------------------------------------------------------------------------
\* total accessors (the machine with a guard off must still be evaluable)
Oct(in, off) == IF off + 1 <= Len(in) THEN in[off + 1] ELSE 0
Rd16(in, off) == Oct(in, off) * 256 + Oct(in, off + 1)
RdN(in, off, n) == [i \in 1..n |-> Oct(in, off + i - 1)]

NoReq == [kind |-> "none", n |-> 0, rem |-> 0]
Req(kind, n, rem) == [kind |-> kind, n |-> n, rem |-> rem]
NoSub == [a |-> 0, b |-> 0]
Sub(a, b) == [a |-> a, b |-> b]

OkItem(v) == [t |-> "ok", v |-> v]
ErrItem(e) == [t |-> "err", v |-> e]

Avp(k, f) == [k |-> k, f |-> f]
HiddenAvp(t, v) == Avp("Hidden", <<t, v>>)

---------------------------------------------------------------------------
\* Initial states.  `start` = number of octets of `in` already consumed
\* (0 for a fresh reader; > 0 when messages are read back to back).
Blank(in, mode) ==
  [ in |-> in, mode |-> mode, opts |-> DefaultOpts, pc |-> "flags",
    start |-> 0, pos |-> 0, lim |-> Len(in),
    flags |-> 0, hdr |-> << >>,
    apos |-> 0, aend |-> 0, cur |-> << >>,
    ppos |-> 0, pend |-> 0, ptype |-> 0, fi |-> 1, fv |-> << >>,
    items |-> << >>, stopped |-> FALSE, req |-> NoReq, sub |-> NoSub, res |-> << >> ]

InitMessage(in, opts, start) ==
  [ Blank(in, "msg") EXCEPT !.opts = opts, !.start = start, !.pos = start ]

\* bare AVP list over the whole of `in` (AVP::try_read_greedy)
InitAvps(in) ==
  [ Blank(in, "avps") EXCEPT !.pc = "a_hdr", !.apos = 0, !.aend = Len(in) ]

\* one payload in[from+1 .. to] interpreted as attribute type t (per-type readers, reveal)
InitPayload(in, t, from, to) ==
  [ Blank(in, "payload") EXCEPT !.pc = "a_type", !.ptype = t, !.ppos = from, !.pend = to ]

---------------------------------------------------------------------------
Fail(s, errs) == [s EXCEPT !.pc = "done", !.res = [t |-> "err", v |-> errs], !.req = NoReq, !.sub = NoSub]
Fail1(s, e) == Fail(s, <<e>>)
Goto(s, pc) == [s EXCEPT !.pc = pc, !.req = NoReq, !.sub = NoSub]

Rem(s) == s.lim - s.pos           \* octets left in the message reader
ARem(s) == s.aend - s.apos        \* octets left in the AVP region reader
PRem(s) == s.pend - s.ppos        \* octets left in the payload reader

\* an AVP record is finished with result `it`; where to continue
PushItem(s, it) ==
  IF s.mode = "payload"
    THEN [s EXCEPT !.pc = "done", !.res = it, !.req = NoReq, !.sub = NoSub]
    ELSE [s EXCEPT !.pc = "a_hdr", !.items = Append(@, it), !.req = NoReq, !.sub = NoSub]
\* ... and the list ends here (unusable length)
PushStop(s, it) ==
  [s EXCEPT !.pc = IF s.mode = "avps" THEN "g_done" ELSE "c_first",
            !.items = Append(@, it), !.stopped = TRUE, !.req = NoReq]
LoopExit(s) == Goto(s, IF s.mode = "avps" THEN "g_done" ELSE "c_first")

---------------------------------------------------------------------------
\* message.rs: Flags::read, version, reserved, dispatch
StepFlags(s) ==
  IF On("Flags2") /\ Rem(s) < 2 THEN Fail1(s, Err0("IncompleteFlags"))
  ELSE [s EXCEPT !.flags = Rd16(s.in, s.pos), !.pos = @ + 2, !.pc = "version",
                 !.req = Req("read", 2, Rem(s)), !.sub = NoSub]

StepVersion(s) ==
  IF s.opts.ver /\ FlagVersion(s.flags) # ProtocolVersion
    THEN Fail1(s, Err1("InvalidVersion", FlagVersion(s.flags)))
    ELSE Goto(s, "reserved")

StepReserved(s) ==
  IF s.opts.res /\ ~FlagReservedOk(s.flags)
    THEN Fail1(s, Err0("InvalidReservedBits"))
    ELSE Goto(s, "dispatch")

StepDispatch(s) == Goto(s, IF FlagT(s.flags) THEN "c_unused" ELSE "d_min")

---------------------------------------------------------------------------
\* control_message.rs
StepCtlUnused(s) ==
  IF s.opts.unu /\ FlagP(s.flags) THEN Fail1(s, Err0("ForbiddenControlMessagePriority"))
  ELSE IF s.opts.unu /\ FlagO(s.flags) THEN Fail1(s, Err0("ForbiddenControlMessageOffset"))
  ELSE Goto(s, "c_bits")

StepCtlBits(s) ==
  IF ~FlagL(s.flags) THEN Fail1(s, Err0("ControlMessageWithoutLength"))
  ELSE IF ~FlagS(s.flags) THEN Fail1(s, Err0("ControlMessageWithoutNsNr"))
  ELSE Goto(s, "c_hdr")

StepCtlHeader(s) ==
  IF On("CtlHdr10") /\ Rem(s) < 10 THEN Fail1(s, Err0("IncompleteControlMessageHeader"))
  ELSE [s EXCEPT !.hdr = [length |-> Rd16(s.in, s.pos), tunnel_id |-> Rd16(s.in, s.pos + 2),
                          session_id |-> Rd16(s.in, s.pos + 4), ns |-> Rd16(s.in, s.pos + 6),
                          nr |-> Rd16(s.in, s.pos + 8)],
                 !.pos = @ + 10, !.pc = "c_len",
                 !.req = Req("read", 10, Rem(s)), !.sub = NoSub]

\* Length counts from the first flag octet: 12 octets of header are behind us.
StepCtlLength(s) ==
  IF On("CtlLen12") /\ s.hdr.length < 12 THEN Fail1(s, Err0("IncompleteControlMessageHeader"))
  ELSE IF On("CtlLenFit") /\ s.hdr.length > Rem(s) + 12 THEN Fail1(s, Err0("IncompleteControlMessagePayload"))
  ELSE [s EXCEPT !.pc = "c_carve", !.req = NoReq, !.sub = Sub(s.hdr.length, 12)]

StepCtlCarve(s) ==
  LET n == IF s.hdr.length >= 12 THEN s.hdr.length - 12 ELSE 0 IN
  [s EXCEPT !.apos = s.pos, !.aend = s.pos + n, !.pos = @ + n, !.pc = "a_hdr",
            !.req = Req("sub", n, Rem(s)), !.sub = NoSub]

\* first AVP, if any, must be a valid Message Type
StepCtlFirst(s) ==
  IF s.items # << >> /\ ~(s.items[1].t = "ok" /\ s.items[1].v.k = "MessageType")
    THEN Fail1(s, Err0("ControlMessageTypeNotFirst"))
    ELSE Goto(s, "c_collect")

ErrorsOf(items) == SelectSeq(items, LAMBDA it : it.t = "err")
ValuesOf(items) == [i \in 1..Len(items) |-> items[i].v]

StepCtlCollect(s) ==
  LET errs == ErrorsOf(s.items) IN
  IF errs # << >> THEN Fail(s, ValuesOf(errs))
  ELSE [s EXCEPT !.pc = "done", !.req = NoReq, !.sub = NoSub,
                 !.res = [t |-> "ok",
                          v |-> [k |-> "Control", length |-> s.hdr.length,
                                 tunnel_id |-> s.hdr.tunnel_id, session_id |-> s.hdr.session_id,
                                 ns |-> s.hdr.ns, nr |-> s.hdr.nr, avps |-> ValuesOf(s.items)]]]

---------------------------------------------------------------------------
\* avp.rs::try_read_greedy and avp/header.rs
StepAvpHeader(s) ==
  IF ARem(s) < 6 THEN LoopExit(s)        \* 0..5 trailing octets are ignored
  ELSE LET o1 == Oct(s.in, s.apos)
           o2 == Oct(s.in, s.apos + 1)
       IN [s EXCEPT !.cur = [len |-> (o1 \div 64) * 256 + o2,
                             hidden |-> Bit(o1, 1),
                             vendor |-> Rd16(s.in, s.apos + 2),
                             type |-> Rd16(s.in, s.apos + 4)],
                    !.apos = @ + 6, !.pc = "a_len",
                    !.req = Req("read", 6, ARem(s)), !.sub = NoSub]

StepAvpLength(s) ==
  IF On("AvpLen6") /\ s.cur.len < 6
    THEN PushStop([s EXCEPT !.sub = NoSub], ErrItem(Err1("InvalidAVPLength", s.cur.len)))
  ELSE IF On("AvpFit") /\ s.cur.len >= 6 /\ s.cur.len - 6 > ARem(s)
    THEN PushStop([s EXCEPT !.sub = Sub(s.cur.len, 6)], ErrItem(Err1("InvalidAVPLength", s.cur.len - 6)))
  ELSE [s EXCEPT !.pc = "a_vendor", !.req = NoReq, !.sub = Sub(s.cur.len, 6)]

PLen(s) == IF s.cur.len >= 6 THEN s.cur.len - 6 ELSE 0

StepAvpVendor(s) ==
  IF s.cur.vendor # 0
    THEN [PushItem(s, ErrItem(Err1("UnsupportedVendorId", s.cur.vendor)))
            EXCEPT !.apos = @ + PLen(s), !.req = Req("skip", PLen(s), ARem(s))]
    ELSE Goto(s, "a_hidden")

StepAvpHidden(s) ==
  IF s.cur.hidden
    THEN [PushItem(s, OkItem(HiddenAvp(s.cur.type, RdN(s.in, s.apos, PLen(s)))))
            EXCEPT !.apos = @ + PLen(s), !.req = Req("bytes", PLen(s), ARem(s))]
    ELSE [s EXCEPT !.ppos = s.apos, !.pend = s.apos + PLen(s), !.ptype = s.cur.type,
                   !.apos = @ + PLen(s), !.pc = "a_type",
                   !.req = Req("sub", PLen(s), ARem(s)), !.sub = NoSub]

\* decode_avp dispatch on the attribute type
StepAvpType(s) ==
  IF ~IsKnownType(s.ptype) THEN PushItem(s, ErrItem(Err1("UnknownAvp", s.ptype)))
  ELSE Goto(s, "a_min")

\* every per-type reader starts with one length check
StepAvpMin(s) ==
  IF On("AvpMin") /\ PRem(s) < MinLen(s.ptype)
    THEN PushItem(s, ErrItem(Err1("IncompleteAVP", s.ptype)))
    ELSE [s EXCEPT !.pc = "a_field", !.fi = 1, !.fv = << >>, !.req = NoReq, !.sub = NoSub]

\* one operation of the field program
FieldOk(s, vals, n, req) ==
  [s EXCEPT !.fv = @ \o vals, !.ppos = @ + n, !.fi = @ + 1, !.req = req, !.sub = NoSub]
FieldErr(s, e, req) == [PushItem(s, ErrItem(e)) EXCEPT !.req = req]

\* the optional text tail in[from+1 .. pend]: <<>> when empty, else <<octets>> (UTF-8)
TailEmpty(s, from) == s.pend - from <= 0
TailText(s, from) == RdN(s.in, from, s.pend - from)

StepAvpField(s) ==
  LET prog == Prog(s.ptype) IN
  IF s.fi > Len(prog) THEN PushItem(s, OkItem(Avp(KindName(s.ptype), s.fv)))
  ELSE
  LET o == prog[s.fi]
      rem == PRem(s)
  IN CASE o.op = "u8"   -> FieldOk(s, <<Oct(s.in, s.ppos)>>, 1, Req("read", 1, rem))
       [] o.op = "u16"  -> FieldOk(s, <<Rd16(s.in, s.ppos)>>, 2, Req("read", 2, rem))
       [] o.op = "fix"  -> FieldOk(s, <<RdN(s.in, s.ppos, o.n)>>, o.n, Req("read", o.n, rem))
       [] o.op = "skip" -> FieldOk(s, << >>, o.n, Req("skip", o.n, rem))
       [] o.op = "enum" ->
            LET c == Rd16(s.in, s.ppos) IN
            IF HasCode(o.tab, c) THEN FieldOk(s, <<NameOf(o.tab, c)>>, 2, Req("read", 2, rem))
            ELSE FieldErr(s, IF o.tab = "MessageType" THEN Err1("UnknownMessageType", c)
                             ELSE Err1("IncompleteAVP", s.ptype), Req("read", 2, rem))
       [] o.op = "rest" -> FieldOk(s, <<RdN(s.in, s.ppos, rem)>>, rem, Req("bytes", rem, rem))
       [] o.op = "utf8" ->
            LET txt == RdN(s.in, s.ppos, rem) IN
            IF IsUtf8(txt) THEN FieldOk(s, <<txt>>, rem, Req("bytes", rem, rem))
            ELSE FieldErr(s, Err1("InvalidUtf8", s.ptype), Req("bytes", rem, rem))
       [] o.op = "optutf8" ->
            IF TailEmpty(s, s.ppos) THEN FieldOk(s, << << >> >>, 0, Req("bytes", rem, rem))
            ELSE IF IsUtf8(TailText(s, s.ppos))
              THEN FieldOk(s, << <<TailText(s, s.ppos)>> >>, rem, Req("bytes", rem, rem))
              ELSE FieldErr(s, Err1("InvalidUtf8", s.ptype), Req("bytes", rem, rem))
       [] o.op = "opterr" ->
            \* fewer than two octets left: no error part (an odd third octet is ignored)
            IF On("ErrTail2") /\ rem < 2 THEN FieldOk(s, << << >>, << >> >>, 0, NoReq)
            ELSE LET c == Rd16(s.in, s.ppos)
                     rq == Req("read", 2, rem)
                 IN IF ~HasCode("ErrorType", c)
                      THEN FieldErr(s, Err1("InvalidResultCodeErrorType", c), rq)
                    ELSE LET et == <<NameOf("ErrorType", c)>> IN
                         IF TailEmpty(s, s.ppos + 2) THEN FieldOk(s, <<et, << >> >>, 2, rq)
                         ELSE IF IsUtf8(TailText(s, s.ppos + 2))
                           THEN FieldOk(s, <<et, <<TailText(s, s.ppos + 2)>> >>, rem, rq)
                           ELSE FieldErr(s, Err1("InvalidUtf8", s.ptype), rq)

---------------------------------------------------------------------------
\* data_message.rs (with the repairs of DESIGN.md s7: D3, D4, D5)
DataMinHdr(w) == 4 + (IF FlagL(w) THEN 2 ELSE 0) + (IF FlagS(w) THEN 4 ELSE 0)
                   + (IF FlagO(w) THEN 2 ELSE 0)

StepDataMin(s) ==
  IF On("DataMin") /\ Rem(s) < DataMinHdr(s.flags)
    THEN Fail1(s, Err0("IncompleteDataMessageHeader"))
    ELSE Goto(s, "d_fields")

StepDataFields(s) ==
  LET w == s.flags
      p0 == s.pos
      p1 == IF FlagL(w) THEN p0 + 2 ELSE p0       \* after Length
      p2 == p1 + 4                                \* after tunnel, session
      p3 == IF FlagS(w) THEN p2 + 4 ELSE p2       \* after Ns, Nr
  IN [s EXCEPT !.hdr = [length |-> IF FlagL(w) THEN <<Rd16(s.in, p0)>> ELSE << >>,
                        tunnel_id |-> Rd16(s.in, p1), session_id |-> Rd16(s.in, p1 + 2),
                        ns_nr |-> IF FlagS(w) THEN << <<Rd16(s.in, p2), Rd16(s.in, p2 + 2)>> >> ELSE << >>,
                        osize |-> 0],
               !.pos = p3, !.pc = "d_offset",
               !.req = Req("read", p3 - p0, Rem(s)), !.sub = NoSub]

StepDataOffset(s) ==
  IF FlagO(s.flags)
    THEN [s EXCEPT !.hdr.osize = Rd16(s.in, s.pos), !.pos = @ + 2, !.pc = "d_skip",
                   !.req = Req("read", 2, Rem(s)), !.sub = NoSub]
    ELSE Goto(s, "d_extent")

StepDataSkip(s) ==
  IF On("DataOffsetFit") /\ s.hdr.osize > Rem(s)
    THEN Fail1(s, Err1("InvalidOffset", s.hdr.osize))
    ELSE [s EXCEPT !.pos = @ + s.hdr.osize, !.pc = "d_extent",
                   !.req = Req("skip", s.hdr.osize, Rem(s)), !.sub = NoSub]

\* payload extent: Length counts from the first flag octet
StepDataExtent(s) ==
  LET used == s.pos - s.start IN
  IF s.hdr.length # << >>
    THEN LET len == s.hdr.length[1] IN
         IF On("DataLenMin") /\ len < used THEN Fail1(s, Err0("IncompleteDataMessageHeader"))
         ELSE IF On("DataLenFit") /\ len >= used /\ len - used > Rem(s)
           THEN Fail1([s EXCEPT !.sub = Sub(len, used)], Err0("IncompleteDataMessagePayload"))
         ELSE IF len = used THEN Fail1(s, Err0("EmptyDataMessagePayload"))
         ELSE [s EXCEPT !.ppos = s.pos, !.pend = s.pos + (IF len >= used THEN len - used ELSE 0),
                        !.pc = "d_payload", !.req = NoReq, !.sub = Sub(len, used)]
    ELSE IF Rem(s) = 0 THEN Fail1(s, Err0("EmptyDataMessagePayload"))
         ELSE [s EXCEPT !.ppos = s.pos, !.pend = s.lim, !.pc = "d_payload",
                        !.req = NoReq, !.sub = NoSub]

StepDataPayload(s) ==
  LET n == s.pend - s.ppos IN
  [s EXCEPT !.pos = s.pend, !.pc = "done", !.req = Req("bytes", n, Rem(s)), !.sub = NoSub,
            !.res = [t |-> "ok",
                     v |-> [k |-> "Data", prio |-> FlagP(s.flags), length |-> s.hdr.length,
                            tunnel_id |-> s.hdr.tunnel_id, session_id |-> s.hdr.session_id,
                            ns_nr |-> s.hdr.ns_nr, offset |-> << >>,
                            data |-> RdN(s.in, s.ppos, n)]]]

StepGreedyDone(s) ==
  [s EXCEPT !.pc = "done", !.req = NoReq, !.sub = NoSub, !.res = [t |-> "list", v |-> s.items]]

---------------------------------------------------------------------------
PcValues == {"flags", "version", "reserved", "dispatch", "c_unused", "c_bits", "c_hdr", "c_len",
             "c_carve", "c_first", "c_collect", "a_hdr", "a_len", "a_vendor", "a_hidden",
             "a_type", "a_min", "a_field", "d_min", "d_fields", "d_offset", "d_skip",
             "d_extent", "d_payload", "g_done", "done"}

Step(s) ==
  CASE s.pc = "flags"     -> StepFlags(s)
    [] s.pc = "version"   -> StepVersion(s)
    [] s.pc = "reserved"  -> StepReserved(s)
    [] s.pc = "dispatch"  -> StepDispatch(s)
    [] s.pc = "c_unused"  -> StepCtlUnused(s)
    [] s.pc = "c_bits"    -> StepCtlBits(s)
    [] s.pc = "c_hdr"     -> StepCtlHeader(s)
    [] s.pc = "c_len"     -> StepCtlLength(s)
    [] s.pc = "c_carve"   -> StepCtlCarve(s)
    [] s.pc = "c_first"   -> StepCtlFirst(s)
    [] s.pc = "c_collect" -> StepCtlCollect(s)
    [] s.pc = "a_hdr"     -> StepAvpHeader(s)
    [] s.pc = "a_len"     -> StepAvpLength(s)
    [] s.pc = "a_vendor"  -> StepAvpVendor(s)
    [] s.pc = "a_hidden"  -> StepAvpHidden(s)
    [] s.pc = "a_type"    -> StepAvpType(s)
    [] s.pc = "a_min"     -> StepAvpMin(s)
    [] s.pc = "a_field"   -> StepAvpField(s)
    [] s.pc = "d_min"     -> StepDataMin(s)
    [] s.pc = "d_fields"  -> StepDataFields(s)
    [] s.pc = "d_offset"  -> StepDataOffset(s)
    [] s.pc = "d_skip"    -> StepDataSkip(s)
    [] s.pc = "d_extent"  -> StepDataExtent(s)
    [] s.pc = "d_payload" -> StepDataPayload(s)
    [] s.pc = "g_done"    -> StepGreedyDone(s)
    [] s.pc = "done"      -> s

\* Run iterates Step until pc = "done".  It is written as a doubling recursion (RunK(s, k) performs up to
\* 2^k steps and stops early) so that the recursion depth stays below 24 even for messages of thousands
\* of AVPs: a linear recursion tens of thousands of frames deep made TLC's garbage collector scan a huge
\* stack at every collection (15 min for one 10 920-AVP message instead of seconds).
RECURSIVE RunK(_, _)
RunK(s, k) ==
  IF s.pc = "done" THEN s
  ELSE IF k = 0 THEN Step(s)
  ELSE LET t == RunK(s, k - 1) IN IF t.pc = "done" THEN t ELSE RunK(t, k - 1)
Run(s) == RunK(s, 22)

---------------------------------------------------------------------------
\* Big-step operators (the oracle used by trace validation)

\* decode one message from in, starting after `start` consumed octets.
\* Result: [t |-> "ok", v |-> message] or [t |-> "err", v |-> <<errors>>], and
\* the octets left afterwards (meaningful when ok).
DecodeFrom(in, opts, start) ==
  LET f == Run(InitMessage(in, opts, start))
  IN [res |-> f.res, rem |-> f.lim - f.pos,
      \* the error list is one error per undecodable record (C15): the AVP stage was
      \* reached and the first record is a valid Message Type
      perrec |-> /\ f.res.t = "err" /\ f.items # << >>
                 /\ f.items[1].t = "ok" /\ f.items[1].v.k = "MessageType"]
DecodeMessage(in, opts) == DecodeFrom(in, opts, 0)

\* AVP::try_read_greedy: list of ok/err items, and the octets left
DecodeAvps(in) ==
  LET f == Run(InitAvps(in)) IN [items |-> f.res.v, rem |-> f.aend - f.apos, stopped |-> f.stopped]

\* payload p interpreted as attribute type t: one ok/err item
DecodePayload(t, p) == Run(InitPayload(p, t, 0, Len(p))).res

---------------------------------------------------------------------------
\* State predicates checked by TLC at every step of every explored run

\* C02 / C13: every unchecked request (fixed-width read, skip, sub-range) lies
\* within the octets that remain in the reader it is issued to.
ReqWithinRem(s) == s.req.kind \in {"read", "skip", "sub"} => s.req.n <= s.req.rem

\* C01: no subtraction underflows
NoUnderflow(s) == s.sub.a >= s.sub.b

\* cursors stay ordered and inside the input
CursorsOrdered(s) ==
  /\ s.start <= s.pos /\ s.pos <= s.lim /\ s.lim = Len(s.in)
  /\ s.mode # "payload" => (s.apos <= s.aend /\ s.aend <= s.lim)
  /\ s.ppos <= s.pend /\ s.pend <= s.lim

\* C01 / C15: at the end there is a value or a non-empty error list
ResultShape(s) ==
  s.pc = "done" =>
    \/ s.res.t = "ok"
    \/ s.res.t = "err" /\ (s.mode = "payload" \/ s.res.v # << >>)
    \/ s.res.t = "list" /\ s.mode = "avps"

\* C15: all-or-nothing, one error per bad record, wire order
AllOrNothing(s) ==
  (s.pc = "done" /\ s.mode = "msg" /\ FlagT(s.flags) /\ s.res.t = "ok") =>
     /\ \A i \in 1..Len(s.items) : s.items[i].t = "ok"
     /\ s.res.v.avps = ValuesOf(s.items)
     /\ (s.items # << >> => s.items[1].v.k = "MessageType")
ErrorPerBadRecord(s) ==
  (s.pc = "done" /\ s.mode = "msg" /\ s.res.t = "err" /\ s.items # << >>
     /\ s.items[1].t = "ok" /\ s.items[1].v.k = "MessageType") =>
       s.res.v = ValuesOf(ErrorsOf(s.items))

\* C08: an accepted message with a length field consumed exactly that many octets
ConsumedIsDeclared(s) ==
  (s.pc = "done" /\ s.mode = "msg" /\ s.res.t = "ok") =>
     IF s.res.v.k = "Control" THEN s.pos - s.start = s.res.v.length
     ELSE IF s.res.v.length # << >> THEN s.pos - s.start = s.res.v.length[1]
     ELSE s.pos = s.lim

\* termination measure: strictly decreases on every AVP-loop iteration
Variant(s) == s.aend - s.apos

StateOk(s) ==
  /\ ReqWithinRem(s) /\ NoUnderflow(s) /\ CursorsOrdered(s) /\ ResultShape(s)
  /\ AllOrNothing(s) /\ ErrorPerBadRecord(s) /\ ConsumedIsDeclared(s)

\* FieldGuardCoversReads: the single length check of each per-type reader
\* covers every unconditional read of its field program.
FieldGuardCoversReads ==
  \A t \in AttributeTypes :
    LET p == Prog(t) IN
      MinLen(t) = SumMin(p, 1) /\
      \A i \in 1..Len(p) : p[i].op \in {"u8", "u16", "fix", "skip", "enum", "rest", "utf8"} => p[i].n >= 1
=============================================================================
