------------------------------- MODULE Bytes -------------------------------
(***************************************************************************)
(* Octets and octet strings.                                               *)
(*                                                                         *)
(* TLC integers are 32-bit signed, so no value in the specification ever   *)
(* exceeds 2^31-1: 8- and 16-bit wire fields are integers, 32- and 64-bit  *)
(* wire fields are carried as 4- and 8-octet sequences (big-endian, i.e.   *)
(* exactly the octets on the wire).                                        *)
(***************************************************************************)
EXTENDS Naturals, Sequences

Byte == 0..255

IsBytes(s) == \A i \in 1..Len(s) : s[i] \in Byte

\* first n elements / all but the first n elements (total: clamps)
Take(s, n) == SubSeq(s, 1, IF n < Len(s) THEN n ELSE Len(s))
Drop(s, n) == SubSeq(s, n + 1, Len(s))

\* s[from+1 .. from+n], 0-based offset, exact (caller guarantees the range)
Slice(s, from, n) == SubSeq(s, from + 1, from + n)

\* big-endian 16-bit value at 0-based offset off
U16At(s, off) == s[off + 1] * 256 + s[off + 2]
U8At(s, off) == s[off + 1]

Be16(n) == << (n \div 256) % 256, n % 256 >>

Zeros(n) == [i \in 1..n |-> 0]

\* bit i (0 = least significant) of a natural
Bit(w, i) == (w \div (2 ^ i)) % 2 = 1

RECURSIVE ConcatRange(_, _, _)
\* concatenation of ss[lo..hi], balanced so that long lists cost O(n log n) copies, not O(n^2)
ConcatRange(ss, lo, hi) ==
  IF lo > hi THEN << >>
  ELSE IF lo = hi THEN ss[lo]
  ELSE LET mid == (lo + hi) \div 2 IN ConcatRange(ss, lo, mid) \o ConcatRange(ss, mid + 1, hi)
\* concatenation of a sequence of sequences
Concat(ss) == ConcatRange(ss, 1, Len(ss))

Min(a, b) == IF a < b THEN a ELSE b
Max(a, b) == IF a > b THEN a ELSE b
=============================================================================
