------------------------------- MODULE Utf8 --------------------------------
(***************************************************************************)
(* Well-formed UTF-8 exactly as in The Unicode Standard, Table 3-7         *)
(* ("Well-Formed UTF-8 Byte Sequences"): no overlong forms, no surrogates  *)
(* (U+D800..U+DFFF), nothing above U+10FFFF.                               *)
(***************************************************************************)
EXTENDS Naturals, Sequences

LOCAL In(b, lo, hi) == b >= lo /\ b <= hi
LOCAL Cont(b) == In(b, 128, 191)

\* Number of octets of the well-formed sequence starting at s[i], 0 if none.
SeqLenAt(s, i) ==
  LET n == Len(s)
      b == s[i]
  IN  IF b <= 127 THEN 1
      ELSE IF In(b, 194, 223)
        THEN IF i + 1 <= n /\ Cont(s[i+1]) THEN 2 ELSE 0
      ELSE IF b = 224
        THEN IF i + 2 <= n /\ In(s[i+1], 160, 191) /\ Cont(s[i+2]) THEN 3 ELSE 0
      ELSE IF In(b, 225, 236) \/ In(b, 238, 239)
        THEN IF i + 2 <= n /\ Cont(s[i+1]) /\ Cont(s[i+2]) THEN 3 ELSE 0
      ELSE IF b = 237
        THEN IF i + 2 <= n /\ In(s[i+1], 128, 159) /\ Cont(s[i+2]) THEN 3 ELSE 0
      ELSE IF b = 240
        THEN IF i + 3 <= n /\ In(s[i+1], 144, 191) /\ Cont(s[i+2]) /\ Cont(s[i+3]) THEN 4 ELSE 0
      ELSE IF In(b, 241, 243)
        THEN IF i + 3 <= n /\ Cont(s[i+1]) /\ Cont(s[i+2]) /\ Cont(s[i+3]) THEN 4 ELSE 0
      ELSE IF b = 244
        THEN IF i + 3 <= n /\ In(s[i+1], 128, 143) /\ Cont(s[i+2]) /\ Cont(s[i+3]) THEN 4 ELSE 0
      ELSE 0

RECURSIVE Utf8From(_, _)
Utf8From(s, i) ==
  IF i > Len(s) THEN TRUE
  ELSE LET k == SeqLenAt(s, i) IN k > 0 /\ Utf8From(s, i + k)

IsUtf8(s) == Utf8From(s, 1)

\* sanity vectors, evaluated whenever the module is loaded
ASSUME IsUtf8(<< >>)
ASSUME IsUtf8(<<72, 105>>)
ASSUME IsUtf8(<<195, 169>>)                 \* U+00E9
ASSUME IsUtf8(<<226, 130, 172>>)            \* U+20AC
ASSUME IsUtf8(<<240, 159, 152, 128>>)       \* U+1F600
ASSUME IsUtf8(<<244, 143, 191, 191>>)       \* U+10FFFF
ASSUME ~IsUtf8(<<192, 128>>)                \* overlong NUL
ASSUME ~IsUtf8(<<193, 191>>)                \* overlong
ASSUME ~IsUtf8(<<224, 159, 191>>)           \* overlong 3-octet
ASSUME ~IsUtf8(<<237, 160, 128>>)           \* U+D800 surrogate
ASSUME ~IsUtf8(<<240, 143, 191, 191>>)      \* overlong 4-octet
ASSUME ~IsUtf8(<<244, 144, 128, 128>>)      \* U+110000
ASSUME ~IsUtf8(<<245, 128, 128, 128>>)
ASSUME ~IsUtf8(<<128>>)                     \* lone continuation
ASSUME ~IsUtf8(<<226, 130>>)                \* truncated
ASSUME ~IsUtf8(<<255>>)
=============================================================================
