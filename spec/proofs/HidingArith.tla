---------------------------- MODULE HidingArith ----------------------------
(***************************************************************************)
(* The block arithmetic of RFC 2661 s4.3 hiding as used in Hiding.tla,     *)
(* for values of ANY length: the alignment padding is less than one block  *)
(* and brings the plaintext to a whole number of blocks; the hidden length *)
(* is the smallest multiple of 16 that holds subfield + value + padding.   *)
(* PadLen and HiddenLen are Hiding!PadLen and Hiding!HiddenLength with the *)
(* sequence lengths replaced by a natural number.  Proved with tlapm.      *)
(***************************************************************************)
EXTENDS Integers, TLAPS

Chunk == 16
PadLen(n) == (Chunk - (n % Chunk)) % Chunk
HiddenLen(n) == Chunk * ((n + Chunk - 1) \div Chunk)      \* n = 2 + |payload| + |lp|

THEOREM PadAligns == \A n \in Nat : PadLen(n) \in 0..15 /\ (n + PadLen(n)) % Chunk = 0
  BY DEF PadLen, Chunk

THEOREM HiddenLenIsPadded == \A n \in Nat : HiddenLen(n) = n + PadLen(n)
  BY DEF HiddenLen, PadLen, Chunk

THEOREM HiddenLenMinimal == \A n \in Nat : HiddenLen(n) >= n /\ HiddenLen(n) < n + Chunk /\ HiddenLen(n) % Chunk = 0
  BY DEF HiddenLen, Chunk
=============================================================================
