-------------------------- MODULE LenMachineProof --------------------------
(***************************************************************************)
(* TLAPS proof that IndInv (hence Safe: every unchecked reader request     *)
(* fits, nothing underflows) is an inductive invariant of LenMachine for   *)
(* inputs of ANY length and length fields of their full width, and that    *)
(* every step satisfies Progress (the termination rank).  Complements the  *)
(* Apalache and TLC runs; checked with `tlapm`.                            *)
(***************************************************************************)
EXTENDS LenMachine, TLAPS

ASSUME ConstAssump == MaxRem \in Nat /\ FieldMax \in Nat /\ LOff = {}

LEMMA U16Nat == U16 \subseteq Nat /\ AvpLens \subseteq Nat
  BY ConstAssump DEF U16, AvpLens

THEOREM InitInd == Init => IndInv
  BY ConstAssump, U16Nat DEF Init, IndInv, TypeOK, Safe, Pcs, U16, AvpLens, MinLens, OpsRange

THEOREM StepInd == IndInv /\ [Next]_vars => IndInv'
  <1> SUFFICES ASSUME IndInv, [Next]_vars PROVE IndInv'
    OBVIOUS
  <1> USE ConstAssump DEF IndInv, TypeOK, Safe, Pcs, U16, AvpLens, MinLens, OpsRange, Widths, LOn, Issue, Quiet, Done
  <1>1 CASE Flags       BY <1>1 DEF Flags
  <1>2 CASE PostFlags   BY <1>2 DEF PostFlags
  <1>3 CASE Idle        BY <1>3 DEF Idle
  <1>4 CASE CtlHeader   BY <1>4 DEF CtlHeader
  <1>5 CASE CtlLength   BY <1>5 DEF CtlLength
  <1>6 CASE CtlCarve    BY <1>6 DEF CtlCarve
  <1>7 CASE AvpHeader   BY <1>7 DEF AvpHeader
  <1>8 CASE AvpLength   BY <1>8 DEF AvpLength
  <1>9 CASE AvpSkip     BY <1>9 DEF AvpSkip
  <1>10 CASE AvpBytes   BY <1>10 DEF AvpBytes
  <1>11 CASE AvpSub     BY <1>11 DEF AvpSub
  <1>12 CASE AvpMin     BY <1>12 DEF AvpMin
  <1>13 CASE AvpRead    BY <1>13 DEF AvpRead
  <1>14 CASE DataMin    BY <1>14 DEF DataMin
  <1>15 CASE DataFields BY <1>15 DEF DataFields
  <1>16 CASE DataOffset BY <1>16 DEF DataOffset
  <1>17 CASE DataSkip   BY <1>17 DEF DataSkip
  <1>18 CASE DataExtent BY <1>18 DEF DataExtent
  <1>19 CASE DataPayload BY <1>19 DEF DataPayload
  <1>20 CASE UNCHANGED vars BY <1>20 DEF vars
  <1> QED BY <1>1, <1>2, <1>3, <1>4, <1>5, <1>6, <1>7, <1>8, <1>9, <1>10, <1>11, <1>12, <1>13, <1>14, <1>15,
             <1>16, <1>17, <1>18, <1>19, <1>20 DEF Next

THEOREM Invariance == Spec => []IndInv
  BY InitInd, StepInd, PTL DEF Spec

THEOREM Safety == Spec => []Safe
  BY Invariance, PTL DEF IndInv
\* termination rank: every step (stuttering included) either leaves the abstract state where it is or
\* strictly decreases the lexicographic rank -- for inputs of any length
THEOREM StepProgress == IndInv /\ [Next]_vars => Progress
  <1> SUFFICES ASSUME IndInv, [Next]_vars PROVE Progress
    OBVIOUS
  <1> USE ConstAssump DEF IndInv, TypeOK, Safe, Pcs, U16, AvpLens, MinLens, OpsRange, Widths, LOn, Issue, Quiet, Done,
                          Progress, LexLess, Phase, LoopOctets, PcRank, LoopPcs
  <1>1 CASE Flags       BY <1>1 DEF Flags
  <1>2 CASE PostFlags   BY <1>2 DEF PostFlags
  <1>3 CASE Idle        BY <1>3 DEF Idle
  <1>4 CASE CtlHeader   BY <1>4 DEF CtlHeader
  <1>5 CASE CtlLength   BY <1>5 DEF CtlLength
  <1>6 CASE CtlCarve    BY <1>6 DEF CtlCarve
  <1>7 CASE AvpHeader   BY <1>7 DEF AvpHeader
  <1>8 CASE AvpLength   BY <1>8 DEF AvpLength
  <1>9 CASE AvpSkip     BY <1>9 DEF AvpSkip
  <1>10 CASE AvpBytes   BY <1>10 DEF AvpBytes
  <1>11 CASE AvpSub     BY <1>11 DEF AvpSub
  <1>12 CASE AvpMin     BY <1>12 DEF AvpMin
  <1>13 CASE AvpRead    BY <1>13 DEF AvpRead
  <1>14 CASE DataMin    BY <1>14 DEF DataMin
  <1>15 CASE DataFields BY <1>15 DEF DataFields
  <1>16 CASE DataOffset BY <1>16 DEF DataOffset
  <1>17 CASE DataSkip   BY <1>17 DEF DataSkip
  <1>18 CASE DataExtent BY <1>18 DEF DataExtent
  <1>19 CASE DataPayload BY <1>19 DEF DataPayload
  <1>20 CASE UNCHANGED vars BY <1>20 DEF vars
  <1> QED BY <1>1, <1>2, <1>3, <1>4, <1>5, <1>6, <1>7, <1>8, <1>9, <1>10, <1>11, <1>12, <1>13, <1>14, <1>15,
             <1>16, <1>17, <1>18, <1>19, <1>20 DEF Next
=============================================================================
