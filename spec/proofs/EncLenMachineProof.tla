------------------------ MODULE EncLenMachineProof ------------------------
(***************************************************************************)
(* TLAPS proof that IndInv (hence Safe) is an inductive invariant of       *)
(* EncLenMachine for ALL values of the size constants -- no bound at all   *)
(* on the writer length, the number of AVPs or the payload sizes.  It      *)
(* complements the Apalache run (fixed large constants) and the TLC run    *)
(* (small constants).  Checked with `tlapm` (SMT back end); not part of a  *)
(* registered command because tlapm takes ~1 min.                          *)
(***************************************************************************)
EXTENDS EncLenMachine, TLAPS

ASSUME ConstAssump ==
  /\ MaxStart \in Nat /\ MaxAvps \in Nat /\ PayMax \in Nat /\ AvpLimit \in Nat /\ MsgLimit \in Nat
  /\ EOff = {}

THEOREM InitInd == Init => IndInv
  BY ConstAssump DEF Init, IndInv, TypeOK, Safe, Pcs, InAvp, InCtlBody

THEOREM StepInd == IndInv /\ [Next]_vars => IndInv'
  <1> SUFFICES ASSUME IndInv, [Next]_vars PROVE IndInv'
    OBVIOUS
  <1> USE ConstAssump DEF IndInv, TypeOK, Safe, Pcs, InAvp, InCtlBody, EOn, NoPatch, Append, AppendBetween
  <1>1 CASE MsgStart   BY <1>1 DEF MsgStart
  <1>2 CASE MsgLen     BY <1>2 DEF MsgLen
  <1>3 CASE MsgHeader  BY <1>3 DEF MsgHeader
  <1>4 CASE AvpNext    BY <1>4 DEF AvpNext
  <1>5 CASE AvpVendor  BY <1>5 DEF AvpVendor
  <1>6 CASE AvpBody    BY <1>6 DEF AvpBody
  <1>7 CASE AvpPatch   BY <1>7 DEF AvpPatch
  <1>8 CASE MsgPatch   BY <1>8 DEF MsgPatch
  <1>9 CASE DataWrite  BY <1>9 DEF DataWrite
  <1>10 CASE UNCHANGED vars BY <1>10 DEF vars
  <1> QED BY <1>1, <1>2, <1>3, <1>4, <1>5, <1>6, <1>7, <1>8, <1>9, <1>10 DEF Next

THEOREM Invariance == Spec => []IndInv
  BY InitInd, StepInd, PTL DEF Spec

THEOREM Safety == Spec => []Safe
  BY Invariance, PTL DEF IndInv
=============================================================================
