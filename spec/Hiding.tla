------------------------------- MODULE Hiding ------------------------------
(***************************************************************************)
(* Hiding of AVP values, RFC 2661 s4.3, parameterised by the hash H        *)
(* (MD5 for conformance with the crate; a toy hash for exhaustive TLC      *)
(* runs).                                                                  *)
(*                                                                         *)
(* Plaintext = original-length subfield (2 octets; the crate stores the    *)
(* AVP length, i.e. value length + 6), original value, the caller's        *)
(* length padding, then just enough of the caller's alignment padding to   *)
(* reach a multiple of 16 octets.                                          *)
(*   c(1) = p(1) XOR H(attribute type . secret . random vector)            *)
(*   c(i) = p(i) XOR H(secret . c(i-1))                                    *)
(* Two definitions are given -- the DECLARATIVE one above and the          *)
(* ITERATIVE in-place loops the code uses (forward when hiding, in         *)
(* reverse block order when revealing) -- and TLC checks that they agree.  *)
(*                                                                         *)
(* Reveal is also a small machine (RInit / RStep) so that its reader       *)
(* requests and its subtraction are checked like the decoder's (C13).      *)
(***************************************************************************)
EXTENDS Naturals, Sequences, Bitwise, Bytes, Encoder, Decoder

Chunk == 16

XorSeq(x, y) == [i \in 1..Len(x) |-> x[i] ^^ y[i]]
Block(s, i) == SubSeq(s, (i - 1) * Chunk + 1, i * Chunk)       \* i-th 16-octet block, i >= 1
NBlocks(s) == Len(s) \div Chunk

PadLen(n) == (Chunk - (n % Chunk)) % Chunk

\* plaintext for an AVP with attribute payload `payload`
Plaintext(payload, lp, ap) ==
  LET head == Be16(6 + Len(payload)) \o payload \o lp
  IN head \o Take(ap, PadLen(Len(head)))

FirstKey(H(_), t, secret, rv) == H(Be16(t) \o secret \o rv)

---------------------------------------------------------------------------
\* declarative definitions
RECURSIVE CipherBlock(_, _, _, _, _, _)
CipherBlock(H(_), p, t, secret, rv, i) ==
  IF i = 1 THEN XorSeq(Block(p, 1), FirstKey(H, t, secret, rv))
  ELSE XorSeq(Block(p, i), H(secret \o CipherBlock(H, p, t, secret, rv, i - 1)))

RECURSIVE EncryptFrom(_, _, _, _, _, _, _)
\* forward pass that threads the previous cipher block (linear in the number of blocks)
EncryptFrom(H(_), p, secret, prev, i, n, acc) ==
  IF i > n THEN acc
  ELSE LET c == XorSeq(Block(p, i), H(secret \o prev))
       IN EncryptFrom(H, p, secret, c, i + 1, n, acc \o c)

EncryptDecl(H(_), p, t, secret, rv) ==
  LET c1 == XorSeq(Block(p, 1), FirstKey(H, t, secret, rv))
  IN EncryptFrom(H, p, secret, c1, 2, NBlocks(p), c1)

\* every plaintext block straight from the ciphertext
DecryptDecl(H(_), c, t, secret, rv) ==
  Concat([i \in 1..NBlocks(c) |->
            IF i = 1 THEN XorSeq(Block(c, 1), FirstKey(H, t, secret, rv))
            ELSE XorSeq(Block(c, i), H(secret \o Block(c, i - 1)))])

---------------------------------------------------------------------------
\* the loops of the code, in place on one buffer
SetBlock(buf, i, blk) == [j \in 1..Len(buf) |-> IF j > (i - 1) * Chunk /\ j <= i * Chunk THEN blk[j - (i - 1) * Chunk] ELSE buf[j]]

RECURSIVE EncryptLoop(_, _, _, _)
EncryptLoop(H(_), buf, secret, i) ==           \* blocks 2..n forward; block i-1 is already cipher
  IF i > NBlocks(buf) THEN buf
  ELSE EncryptLoop(H, SetBlock(buf, i, XorSeq(Block(buf, i), H(secret \o Block(buf, i - 1)))), secret, i + 1)

EncryptIter(H(_), p, t, secret, rv) ==
  EncryptLoop(H, SetBlock(p, 1, XorSeq(Block(p, 1), FirstKey(H, t, secret, rv))), secret, 2)

RECURSIVE DecryptLoop(_, _, _, _)
DecryptLoop(H(_), buf, secret, i) ==           \* blocks n..2 in reverse; block i-1 is still cipher
  IF i < 2 THEN buf
  ELSE DecryptLoop(H, SetBlock(buf, i, XorSeq(Block(buf, i), H(secret \o Block(buf, i - 1)))), secret, i - 1)

DecryptIter(H(_), c, t, secret, rv) ==
  LET b == DecryptLoop(H, c, secret, NBlocks(c))
  IN SetBlock(b, 1, XorSeq(Block(b, 1), FirstKey(H, t, secret, rv)))

---------------------------------------------------------------------------
\* AVP::hide.  Result [panic |-> BOOLEAN, v |-> AVP]
Hide(H(_), a, secret, rv, lp, ap) ==
  IF IsHidden(a) THEN [panic |-> FALSE, v |-> a]
  ELSE LET payload == AvpPayload(a) IN
       IF 6 + Len(payload) > MaxAvpLength THEN [panic |-> TRUE, v |-> a]
       ELSE [panic |-> FALSE,
             v |-> HiddenAvp(AvpTypeOf(a), EncryptDecl(H, Plaintext(payload, lp, ap), AvpTypeOf(a), secret, rv))]

\* length of the hidden value: 16 * ceil((2 + |payload| + |lp|) / 16)
HiddenLength(payload, lp) == Chunk * ((2 + Len(payload) + Len(lp) + Chunk - 1) \div Chunk)

---------------------------------------------------------------------------
\* AVP::reveal as a machine.  `plain` is the decrypted value once pc has passed "r_decrypt".
RInit(a, secret, rv) ==
  [ pc |-> "r_kind", a |-> a, secret |-> secret, rv |-> rv, plain |-> << >>, total |-> 0,
    req |-> NoReq, sub |-> NoSub, dec |-> << >>, res |-> << >> ]

RDone(s, res) == [s EXCEPT !.pc = "done", !.res = res, !.req = NoReq, !.sub = NoSub]

RStep(H(_), s) ==
  CASE s.pc = "r_kind" ->
         IF ~IsHidden(s.a) THEN RDone(s, OkItem(s.a)) ELSE [s EXCEPT !.pc = "r_empty"]
    [] s.pc = "r_empty" ->
         IF s.a.f[2] = << >> THEN RDone(s, ErrItem(Err0("EmptyHiddenAVP"))) ELSE [s EXCEPT !.pc = "r_align"]
    [] s.pc = "r_align" ->
         IF Len(s.a.f[2]) % Chunk # 0 THEN RDone(s, ErrItem(Err0("MisalignedHiddenAVP")))
         ELSE [s EXCEPT !.pc = "r_decrypt"]
    [] s.pc = "r_decrypt" ->
         [s EXCEPT !.plain = DecryptDecl(H, s.a.f[2], s.a.f[1], s.secret, s.rv), !.pc = "r_len"]
    [] s.pc = "r_len" ->      \* read the original-length subfield; must be 6..1023
         LET total == U16At(s.plain, 0) IN
         IF total < 6 \/ total > MaxAvpLength
           THEN [RDone(s, ErrItem(Err1("InvalidOriginalAVPLength", total))) EXCEPT !.req = Req("read", 2, Len(s.plain))]
           ELSE [s EXCEPT !.total = total, !.pc = "r_fit", !.req = Req("read", 2, Len(s.plain)), !.sub = Sub(total, 6)]
    [] s.pc = "r_fit" ->      \* the declared original value must lie inside the decrypted value
         IF On("RevealFit") /\ s.total - 6 > Len(s.plain) - 2
           THEN RDone(s, ErrItem(Err1("InvalidOriginalAVPLength", s.total)))
           ELSE [s EXCEPT !.pc = "r_payload", !.req = Req("sub", s.total - 6, Len(s.plain) - 2), !.sub = NoSub,
                          !.dec = InitPayload(s.plain, s.a.f[1], 2, Min(2 + s.total - 6, Len(s.plain)))]
    [] s.pc = "r_payload" ->  \* the per-type reader, step by step (Decoder machine)
         IF s.dec.pc = "done" THEN RDone(s, s.dec.res)
         ELSE [s EXCEPT !.dec = Step(s.dec), !.req = NoReq, !.sub = NoSub]
    [] s.pc = "done" -> s

RECURSIVE RRunK(_, _, _)
RRunK(H(_), s, k) ==    \* doubling recursion, see Decoder!RunK
  IF s.pc = "done" THEN s
  ELSE IF k = 0 THEN RStep(H, s)
  ELSE LET t == RRunK(H, s, k - 1) IN IF t.pc = "done" THEN t ELSE RRunK(H, t, k - 1)
RRun(H(_), s) == RRunK(H, s, 12)

\* big-step: an ok/err item
Reveal(H(_), a, secret, rv) == RRun(H, RInit(a, secret, rv)).res

\* invariants of the reveal machine (C13)
RStateOk(s) ==
  /\ ReqWithinRem(s) /\ NoUnderflow(s)
  /\ (s.pc = "r_payload" => StateOk(s.dec))
  /\ (s.pc = "done" /\ IsHidden(s.a) /\ s.res.t = "ok" =>
        \* an AVP of the announced attribute type
        /\ IsKnownType(s.a.f[1]) /\ s.res.v.k = KindName(s.a.f[1]))
  /\ (s.pc = "done" /\ IsHidden(s.a) /\ (s.a.f[2] = << >> \/ Len(s.a.f[2]) % Chunk # 0) => s.res.t = "err")
=============================================================================
