------------------------------- MODULE Trace -------------------------------
(***************************************************************************)
(* Trace validation: events recorded from the real crate (NDJSON, one      *)
(* event per line, file named by the environment variable TRACE) are       *)
(* consumed one per step.  Each event is checked against the               *)
(* specification (Conform); an event that is not a behaviour of the        *)
(* specification is recorded in `fails` with the tags saying why, and      *)
(* validation continues with the next event, so one failure never leaves   *)
(* the rest of the trace unexamined.  The result is written as NDJSON to   *)
(* the file named by RESULT when the last event has been consumed.         *)
(***************************************************************************)
EXTENDS ConformAll, Json, IOUtils

Rec == ndJsonDeserialize(IOEnv.TRACE)

VARIABLES l, fails,
          memo      \* C19: what each call of a threaded / repeated run returned the first time it was seen

TInit == l = 1 /\ fails = << >> /\ memo = << >>

\* Calls issued from several threads, or repeated in different orders, carry the index of the case
\* (idx), the index of the call inside it (call) and a signature of everything observable about the
\* call's outcome (sig).  The codec keeps no state: the same call must always have the same signature.
IsRepeated(ev) == Has(ev, "sig") /\ Has(ev, "call")
Key(ev) == <<ev.idx, ev.call, IF Has(ev, "build") THEN ev.build ELSE "">>
Known(ev) == \E i \in 1..Len(memo) : memo[i][1] = Key(ev)
FirstSig(ev) == memo[CHOOSE i \in 1..Len(memo) : memo[i][1] = Key(ev)][2]

TNext ==
  /\ l <= Len(Rec)
  /\ LET ev == Rec[l]
         tags == EventTags(ev)
                   \o (IF IsRepeated(ev) /\ Known(ev) /\ FirstSig(ev) # ev.sig THEN <<"nondeterministic">> ELSE << >>)
     IN /\ l' = l + 1
        /\ memo' = IF IsRepeated(ev) /\ ~Known(ev) THEN Append(memo, <<Key(ev), ev.sig>>) ELSE memo
        /\ fails' = IF tags = << >> THEN fails
                    ELSE Append(fails, [line |-> l, id |-> ev.id, e |-> ev.e, tags |-> tags])

TSpec == TInit /\ [][TNext]_<<l, fails, memo>>

\* always true; writes the verdicts once the whole trace has been consumed
Report ==
  l = Len(Rec) + 1 =>
    ndJsonSerialize(IOEnv.RESULT, <<[events |-> Len(Rec), failed |-> Len(fails)]>> \o fails)

\* every line of the trace was consumed
Accepted == TLCGet("stats").diameter = Len(Rec) + 1
=============================================================================
