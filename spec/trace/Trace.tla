------------------------------- MODULE Trace -------------------------------
(***************************************************************************)
(* Trace validation: events recorded from the real crate (NDJSON, one      *)
(* event per line, file named by the environment variable TRACE) are       *)
(* consumed one per step.  Each event is checked against the               *)
(* specification (Conform); an event that is not a behaviour of the        *)
(* specification is recorded in `fails` with the tags saying why, and      *)
(* validation continues with the next event, so one failure never leaves   *)
(* the rest of the trace unexamined.  The result is written as NDJSON to   *)
(* the file named by RESULT when the last event has been consumed.         *)
(***************************************************************************)
EXTENDS ConformAll, Json, IOUtils

Rec == ndJsonDeserialize(IOEnv.TRACE)

VARIABLES l, fails

TInit == l = 1 /\ fails = << >>

TNext ==
  /\ l <= Len(Rec)
  /\ LET ev == Rec[l]
         tags == EventTags(ev)
     IN /\ l' = l + 1
        /\ fails' = IF tags = << >> THEN fails
                    ELSE Append(fails, [line |-> l, id |-> ev.id, e |-> ev.e, tags |-> tags])

TSpec == TInit /\ [][TNext]_<<l, fails>>

\* always true; writes the verdicts once the whole trace has been consumed
Report ==
  l = Len(Rec) + 1 =>
    ndJsonSerialize(IOEnv.RESULT, <<[events |-> Len(Rec), failed |-> Len(fails)]>> \o fails)

\* every line of the trace was consumed
Accepted == TLCGet("stats").diameter = Len(Rec) + 1
=============================================================================
