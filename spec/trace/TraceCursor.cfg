SPECIFICATION TSpec
INVARIANT Inv
POSTCONDITION Accepted
CHECK_DEADLOCK FALSE
