---------------------------- MODULE TraceCursor ----------------------------
(***************************************************************************)
(* Trace validation of SliceReader and VecWriter in the canonical form     *)
(* (C18): the state variables of the Reader and Writer contract machines   *)
(* (src, rd, last; buf, wlast) are the state of the trace specification,   *)
(* every recorded operation must be an ENABLED action of its machine       *)
(* (Reader!Call, Writer!WAppend / WPatch) whose result is the logged one,  *)
(* and the trace is accepted iff every line is consumed                    *)
(* (TLCGet("stats").diameter = Len(Rec) + 1).  A line with no matching     *)
(* action stops the search there: the orchestrator reads the length of the *)
(* longest matched prefix, reports the case that contains the next line,   *)
(* removes it and validates the rest.                                      *)
(*                                                                         *)
(* Lines:  {"e":"rreset","slice":[..]}   new root reader over slice        *)
(*         {"e":"rop","r":id,"op":..,"n":..,"ret":..,"len":..,"empty":..}  *)
(*         {"e":"wreset"}                new empty writer                  *)
(*         {"e":"wop","op":..,"b":[..],"off":..,"t":"ok"|"panic","data":[..],"len":..,"empty":..} *)
(***************************************************************************)
EXTENDS Reader, Writer, Json, IOUtils, TLC

Rec == ndJsonDeserialize(IOEnv.TRACE)

VARIABLE l

vars == <<src, rd, last, buf, wlast, l>>

TInit == l = 1 /\ src = << >> /\ rd = RdInit(<< >>) /\ last = << >> /\ buf = << >> /\ wlast = << >>

Is(e) == l <= Len(Rec) /\ Rec[l].e = e /\ l' = l + 1

ReaderReset ==
  /\ Is("rreset")
  /\ src' = Rec[l].slice /\ rd' = RdInit(Rec[l].slice) /\ last' = << >>
  /\ UNCHANGED <<buf, wlast>>

\* the logged result is what the machine's action produces
ReaderOp ==
  /\ Is("rop")
  /\ LET ev == Rec[l] IN
       /\ Call(ev.r + 1, ev.op, ev.n)
       /\ CASE ev.op = "read"  -> last'.ret = ev.ret
            [] ev.op = "bytes" -> last'.ret = ev.ret
            [] ev.op = "sub"   -> ev.newlen = ev.n /\ ev.newempty = (ev.n = 0)
            [] OTHER -> TRUE
       /\ last'.rem = ev.len /\ ev.empty = (ev.len = 0)
  /\ UNCHANGED <<buf, wlast>>

WriterReset ==
  /\ Is("wreset") /\ buf' = << >> /\ wlast' = << >>
  /\ UNCHANGED <<src, rd, last>>

WriterOp ==
  /\ Is("wop")
  /\ LET ev == Rec[l] IN
       /\ IF ev.op = "at" THEN WPatch(ev.b, ev.off) /\ wlast'.refused = (ev.t = "panic")
                         ELSE WAppend(ev.b) /\ ev.t = "ok"
       /\ buf' = ev.data /\ ev.len = Len(buf') /\ ev.empty = (Len(buf') = 0)
  /\ UNCHANGED <<src, rd, last>>

TNext == ReaderReset \/ ReaderOp \/ WriterReset \/ WriterOp

TSpec == TInit /\ [][TNext]_vars

\* the cursor model's invariants hold along the recorded history as well
Inv == CursorsInside /\ Disjoint

\* acceptance; on rejection the number of matched lines is printed for the orchestrator
Accepted ==
  LET d == TLCGet("stats").diameter IN
  IF d = Len(Rec) + 1 THEN TRUE ELSE PrintT(<<"MATCHED", d - 1, Len(Rec)>>) /\ FALSE
=============================================================================
