SPECIFICATION TSpec
INVARIANT Report
POSTCONDITION Accepted
CHECK_DEADLOCK FALSE
CONSTANT Off = {}
