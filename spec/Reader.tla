------------------------------- MODULE Reader ------------------------------
(***************************************************************************)
(* The Reader contract as a machine with state variables; the functional core  *)
(* (preconditions, results, successor state) is in ReaderCore and is shared    *)
(* with the trace specifications.                                          *)
(***************************************************************************)
EXTENDS ReaderCore

\* The machine, for model checking (MCReader)
VARIABLES src, rd, last

RInit(S) == src \in S /\ rd = RdInit(src) /\ last = << >>

Call(id, op, n) ==
  /\ Enabled(rd, id, op, n)
  /\ last' = [id |-> id, op |-> op, n |-> n, ret |-> Returns(src, rd, id, op, n),
              rem |-> RemOf(After(rd, id, op, n)[id])]
  /\ rd' = After(rd, id, op, n)
  /\ UNCHANGED src

\* invariants of the cursor model
CursorsInside == \A i \in 1..Len(rd) : rd[i].from <= rd[i].to /\ rd[i].to <= Len(src)
\* the live ranges of distinct readers never overlap: every octet is handed out once
Disjoint == \A i, j \in 1..Len(rd) :
              i # j => \/ rd[i].to <= rd[j].from \/ rd[j].to <= rd[i].from
                       \/ RemOf(rd[i]) = 0 \/ RemOf(rd[j]) = 0
=============================================================================
