------------------------------- MODULE Errors ------------------------------
(***************************************************************************)
(* Decode errors as <<variant, arguments>> records, the names the crate's  *)
(* DecodeError uses, and the text rendering contract (C20).                *)
(***************************************************************************)
EXTENDS Naturals, Sequences, AvpTable

Err0(v)    == [v |-> v, a |-> << >>]
Err1(v, x) == [v |-> v, a |-> <<x>>]

ErrorVariants == {
  "IncompleteAVP", "UnknownMessageType", "InvalidUtf8", "InvalidResultCodeErrorType",
  "AVPReadError", "InvalidAVPLength", "UnknownAvp", "EmptyHiddenAVP",
  "MisalignedHiddenAVP", "InvalidOriginalAVPLength", "UnsupportedVendorId",
  "InvalidVersion", "InvalidReservedBits", "IncompleteFlags", "InvalidOffset",
  "IncompleteDataMessageHeader", "IncompleteDataMessagePayload",
  "EmptyDataMessagePayload", "MessageReadError", "ForbiddenControlMessagePriority",
  "ForbiddenControlMessageOffset", "ControlMessageWithoutLength",
  "ControlMessageWithoutNsNr", "IncompleteControlMessageHeader",
  "IncompleteControlMessagePayload", "ControlMessageTypeNotFirst" }

\* variants whose argument is an attribute-type number and whose rendering
\* must name the AVP kind that number decodes to
AvpNamedVariants == {"IncompleteAVP", "InvalidUtf8", "AVPReadError"}

\* variants with one numeric argument
OneArgVariants == AvpNamedVariants \cup
  {"UnknownMessageType", "InvalidResultCodeErrorType", "InvalidAVPLength", "UnknownAvp",
   "InvalidOriginalAVPLength", "UnsupportedVendorId", "InvalidVersion", "InvalidOffset"}

\* What the text of an AVP-related error has to contain for attribute type n:
\* the kind name the decoder's dispatch gives that number, else the number.
\* (decimal digits as a sequence of character codes, most significant first)
RECURSIVE Digits(_)
Digits(n) == IF n < 10 THEN <<48 + n>> ELSE Digits(n \div 10) \o <<48 + (n % 10)>>

AvpNameIsKind(n) == IsKnownType(n)
AvpNameKind(n) == KindName(n)
=============================================================================
