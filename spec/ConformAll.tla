----------------------------- MODULE ConformAll ----------------------------
(* dispatch from event kind to its conformance operator *)
EXTENDS ConformMisc

EventTags(ev) ==
  IF Has(ev, "harness_error") THEN <<"harness-error">>
  ELSE CASE ev.e = "decode"         -> IF Has(ev, "fault") THEN VFault(ev) ELSE VDecode(ev)
         [] ev.e = "decode_avps"    -> VDecodeAvps(ev)
         [] ev.e = "decode_payload" -> VDecodePayload(ev)
         [] ev.e = "decode_seq"     -> VDecodeSeq(ev)
         [] ev.e = "decode_opts"    -> VDecodeOpts(ev)
         [] ev.e = "decode_bits"    -> VDecodeBits(ev)
         [] ev.e = "fault_sweep"    -> VFaultSweep(ev)
         [] ev.e = "decode_suffix"  -> VDecodeSuffix(ev)
         [] ev.e = "avps_concat"    -> VAvpsConcat(ev)
         [] ev.e = "ctl_records"    -> VCtlRecords(ev)
         [] ev.e = "encode"         -> VEncode(ev)
         [] ev.e = "encode_seq"     -> VEncodeSeq(ev)
         [] ev.e = "roundtrip"      -> VRoundtrip(ev)
         [] ev.e = "chain"          -> VChain(ev)
         [] ev.e = "hide"           -> VHide(ev)
         [] ev.e = "reveal"         -> VReveal(ev)
         [] ev.e = "hide_reveal"    -> VHideReveal(ev)
         [] ev.e = "enum_map"       -> VEnumMap(ev)
         [] ev.e = "enum_names"     -> VEnumNames(ev)
         [] ev.e = "bitmask"        -> VBitmask(ev)
         [] ev.e = "bitmask_sweep"  -> VBitmaskSweep(ev)
         [] ev.e = "rt_sweep"       -> VRtSweep(ev)
         [] ev.e = "render"         -> VRender(ev)
         [] ev.e = "cursor"         -> VCursor(ev)
         [] ev.e = "vecwriter"      -> VVecWriter(ev)
         [] OTHER -> <<"unknown-event">>
=============================================================================
