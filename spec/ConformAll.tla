----------------------------- MODULE ConformAll ----------------------------
(* dispatch from event kind to its conformance operator *)
EXTENDS Conform

EventTags(ev) ==
  IF Has(ev, "harness_error") THEN <<"harness-error">>
  ELSE CASE ev.e = "decode"         -> VDecode(ev)
         [] ev.e = "decode_avps"    -> VDecodeAvps(ev)
         [] ev.e = "decode_payload" -> VDecodePayload(ev)
         [] ev.e = "decode_seq"     -> VDecodeSeq(ev)
         [] OTHER -> <<"unknown-event">>
=============================================================================
