------------------------------- MODULE WriterCore ------------------------------
(***************************************************************************)
(* The Writer contract (common/writer.rs, VecWriter) as a machine.         *)
(*                                                                         *)
(* State: buf, the octets written so far.                                  *)
(*   append(bs)      buf' = buf \o bs   (write_bytes, write_u8/16/32/64:   *)
(*                   integers big-endian)                                  *)
(*   patch(bs, off)  positional overwrite; must lie inside the written     *)
(*                   data (off + |bs| <= |buf|): then the octets are       *)
(*                   replaced in place and the length is unchanged;        *)
(*                   otherwise it is REFUSED and buf is unchanged.         *)
(***************************************************************************)
EXTENDS Naturals, Sequences, Bytes

PatchFits(b, bs, off) == off + Len(bs) <= Len(b)

Patched(b, bs, off) ==
  [i \in 1..Len(b) |-> IF i > off /\ i <= off + Len(bs) THEN bs[i - off] ELSE b[i]]

\* functional core: [buf, refused]
WApply(b, op, bs, off) ==
  CASE op = "append" -> [buf |-> b \o bs, refused |-> FALSE]
    [] op = "patch"  -> IF PatchFits(b, bs, off)
                          THEN [buf |-> Patched(b, bs, off), refused |-> FALSE]
                          ELSE [buf |-> b, refused |-> TRUE]
=============================================================================
