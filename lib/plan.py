"""Which TLC models, case sources and failure tags decide which property.

MC_MODELS   name -> module / cfg in spec/mc, the program counters its exported behaviours must visit
            (vacuity check), thorough_only / quick_only flags
PROPS       property -> models, generator suites, evidence text
catalog_cases(prop, model, behaviours)  behaviours exported by a model -> cases for the real crate
owns(prop, event, tag)  does failure `tag` on `event` contradict `prop`?
"""

PC_MSG = ["flags", "version", "reserved", "dispatch"]
PC_CTL = ["c_unused", "c_bits", "c_hdr", "c_len", "c_carve", "c_first", "c_collect"]
PC_AVP = ["a_hdr", "a_len", "a_vendor", "a_hidden", "a_type", "a_min", "a_field"]
PC_DATA = ["d_min", "d_fields", "d_offset", "d_skip", "d_extent", "d_payload"]
PC_ENC_CTL = ["m_start", "m_len", "m_hdr", "a_next", "a_vendor", "a_body", "a_patch", "m_patch"]
PC_REVEAL = ["r_kind", "r_empty", "r_align", "r_decrypt", "r_len", "r_fit", "r_payload"]


def dec(family, pcs, **kw):
    d = {"module": "MCDecoder.tla", "cfg": "MCDecoder_%s.cfg" % family, "expect_pcs": pcs}
    d.update(kw)
    return d


MC_MODELS = {
    "dec_framing": dec("framing", PC_MSG + PC_CTL + PC_DATA + ["a_hdr", "a_field"]),
    "dec_ctllen": dec("ctllen", PC_MSG + PC_CTL + ["a_hdr", "a_len", "a_field"]),
    "dec_avprec": dec("avprec", PC_CTL + PC_AVP + ["g_done"]),
    "dec_recprod": dec("recprod", PC_CTL + PC_AVP + ["g_done"]),
    "dec_kinds": dec("kinds", ["a_hdr", "a_len", "a_type", "a_min", "a_field", "g_done"]),
    "dec_loop3": dec("loop3", PC_CTL + PC_AVP + ["g_done"], quick_only=True),
    "dec_loop4": dec("loop4", PC_CTL + PC_AVP + ["g_done"], thorough_only=True),
    "dec_data": dec("data", PC_MSG + PC_DATA),
    "dec_flagsq": dec("flagsq", PC_MSG + ["c_unused", "c_collect", "d_payload"], quick_only=True),
    "dec_flagsall": dec("flagsall", PC_MSG + ["c_unused", "c_collect", "d_payload"], thorough_only=True, timeout=3000),
    "enc_avps": {"module": "MCEncoder.tla", "cfg": "MCEncoder_avps.cfg", "expect_pcs": ["a_next", "a_vendor", "a_body", "a_patch"]},
    "enc_msgs": {"module": "MCEncoder.tla", "cfg": "MCEncoder_msgs.cfg", "expect_pcs": PC_ENC_CTL + ["d_write"]},
    "enc_sizes": {"module": "MCEncoder.tla", "cfg": "MCEncoder_sizes.cfg", "expect_pcs": PC_ENC_CTL,
                  "expect_replay": {"avp-refused": lambda r: r["panic"] and r["kind"] == "avp",
                                    "avp-at-limit": lambda r: (not r["panic"]) and r["kind"] == "avp"}},
    "enc_huge": {"module": "MCEncoder.tla", "cfg": "MCEncoder_huge.cfg", "expect_pcs": PC_ENC_CTL, "thorough_only": True,
                 "expect_replay": {"message-refused": lambda r: r["panic"], "message-at-limit": lambda r: not r["panic"]}},
    "hid_hide": {"module": "MCHiding.tla", "cfg": "MCHiding_hide.cfg", "expect_pcs": PC_REVEAL},
    "hid_reveal": {"module": "MCHiding.tla", "cfg": "MCHiding_reveal.cfg", "expect_pcs": PC_REVEAL,
                   "expect_replay": {"accepted": lambda r: r["res"] == "ok", "rejected": lambda r: r["res"] == "err"}},
    "reader_q": {"module": "MCReader.tla", "cfg": "MCReader_q.cfg", "quick_only": True,
                 "expect_pcs": ["op:read", "op:skip", "op:sub", "op:bytes"]},
    "reader_t": {"module": "MCReader.tla", "cfg": "MCReader_t.cfg", "thorough_only": True,
                 "expect_pcs": ["op:read", "op:skip", "op:sub", "op:bytes"]},
    "writer_q": {"module": "MCWriter.tla", "cfg": "MCWriter_q.cfg", "quick_only": True, "expect_pcs": ["op:bytes", "op:at"]},
    "writer_t": {"module": "MCWriter.tla", "cfg": "MCWriter_t.cfg", "thorough_only": True, "expect_pcs": ["op:bytes", "op:at"]},
    "session_q": {"module": "MCSession.tla", "cfg": "MCSession_q.cfg", "quick_only": True,
                  "expect_replay": {"complete": lambda r: len(r["bufs"]) == 2}},
    "session_t": {"module": "MCSession.tla", "cfg": "MCSession_t.cfg", "thorough_only": True, "timeout": 3000,
                  "expect_replay": {"complete": lambda r: len(r["bufs"]) == 2}},
    "enums": {"module": "MCEnums.tla", "cfg": "MCEnums.cfg"},
    # the length arithmetic of the decoder with octet values forgotten: TLC for all inputs up to 20 octets ...
    "len_tlc": {"module": "../LenMachine.tla", "cfg": "MCLenMachine.cfg"},
    # ... and Apalache: Safe (every request fits, nothing underflows) is INDUCTIVE, for inputs of any length
    "len_base": {"module": "LenMachine.tla", "timeout": 1800,
                 "apalache": ["--cinit=ConstInit", "--init=Init", "--next=Next", "--inv=IndInv", "--length=0"]},
    "len_step": {"module": "LenMachine.tla", "timeout": 1800,
                 "apalache": ["--cinit=ConstInit", "--init=IndInit", "--next=Next", "--inv=IndInv", "--length=1"]},
    # ... and termination: a lexicographic rank decreases on every step, for inputs of any length (action invariant)
    "len_progress": {"module": "LenMachine.tla", "timeout": 1800,
                     "apalache": ["--cinit=ConstInit", "--init=IndInit", "--next=Next", "--inv=Progress", "--length=1"]},
    # ... and the same two facts as TLAPS theorems (no bound on anything; thorough tier)
    "len_tlaps": {"module": "LenMachine.tla", "tlaps": "LenMachineProof.tla", "timeout": 1800, "thorough_only": True},
    "enclen_tlaps": {"module": "EncLenMachine.tla", "tlaps": "EncLenMachineProof.tla", "timeout": 1800, "thorough_only": True},
    "hid_tlaps": {"module": None, "tlaps": "HidingArith.tla", "timeout": 900, "thorough_only": True},
    # the position arithmetic of the encoder with octet values forgotten: TLC with scaled-down limits (both
    # refusals reached) and Apalache: Safe is INDUCTIVE for writers, AVP counts and payloads of any size
    "enclen_tlc": {"module": "../EncLenMachine.tla", "cfg": "MCEncLenMachine.cfg"},
    "enclen_base": {"module": "EncLenMachine.tla", "timeout": 1800,
                    "apalache": ["--cinit=ConstInit", "--init=Init", "--next=Next", "--inv=IndInv", "--length=0"]},
    "enclen_step": {"module": "EncLenMachine.tla", "timeout": 1800,
                    "apalache": ["--cinit=ConstInit", "--init=IndInit", "--next=Next", "--inv=IndInv", "--length=1"]},
}

DEC_MODELS = ["dec_framing", "dec_ctllen", "dec_avprec", "dec_recprod", "dec_kinds", "dec_loop3", "dec_loop4", "dec_data"]
ENC_MODELS = ["enc_avps", "enc_msgs", "enc_sizes", "enc_huge"]

DECODE_EVENTS = ("decode", "decode_avps", "decode_payload", "decode_seq", "decode_opts", "decode_bits", "decode_suffix", "avps_concat")
DIED = ("outcome-panic", "outcome-abort", "outcome-timeout")

COMMON_ASSUMPTIONS = [
    "the TLA+ specification in /verif/spec is the reference semantics (checked internally by TLC: invariants, "
    "encode/decode cross-checks, RFC 1321 vectors)",
    "a change to the crate is detected when some explored input reaches it",
]

PROPS = {
    "C01": {
        "mc": DEC_MODELS + ["len_tlc", "len_base", "len_step", "len_progress", "len_tlaps"], "gen": ["decode", "avps", "payload", "decode_big", "many_avps", "avp_lengths", "octet_sweep", "text_classes", "record_product", "value_products", "flags"],
        "rule": "TLC-explored boundary grammars of the decoder machine (every run exported and replayed) + seeded "
                "random / mutated / raw inputs through both entry points, the bare AVP list reader and the per-type "
                "readers, in a dev build (overflow checks, debug assertions) and a release build, under catch_unwind "
                "with abort detection and a watchdog; distinct = distinct (operation, input, options) cases",
        "assumptions": COMMON_ASSUMPTIONS + ["random inputs up to ~2 KiB; targeted inputs up to 131 KiB (16-bit sums near 65 535 with the octets really present)", "per-case watchdog 10 s (quick) / 30 s (thorough) without progress; after three hangs the remaining cases are not run"],
    },
    "C02": {
        "mc": DEC_MODELS + ["hid_reveal", "len_tlc", "len_base", "len_step", "len_tlaps"], "gen": ["decode_readers", "avps_readers", "payload_readers", "reveal", "avp_lengths", "octet_sweep", "text_classes", "record_product", "kind_pairs", "small_values", "value_products"], "readers": "all",
        "rule": "as C01, every input decoded through SliceReader, a monitoring reader that logs each request with the "
                "octets remaining, and a queue-backed reader; every logged request validated against the Reader contract "
                "machine; the three outcomes must coincide",
        "assumptions": COMMON_ASSUMPTIONS + ["undefined behaviour inside SliceReader is observed only through its contract (C18) "
                                             "and std's debug precondition checks in the dev build",
                                             "reveal() builds its own SliceReader, so only its requests' bounds (C13) apply there"],
    },
    "C03": {
        "mc": ["enc_avps", "enc_msgs", "enc_sizes", "enc_huge"], "gen": ["roundtrip_ctl", "many_avps", "small_values", "avp_lengths", "kind_pairs", "text_classes", "rfc_messages", "value_products"],
        "rule": "value catalogue explored by TLC on the Encoder machine with the specification's decoder applied to the "
                "result (RoundTrip invariant), each behaviour replayed; seeded random control messages (0..12 AVPs) and "
                "AVPs of all 40 variants with boundary sizes of the variable parts, up to 65 535-octet messages",
        "assumptions": COMMON_ASSUMPTIONS,
    },
    "C04": {
        "mc": ["enc_msgs", "dec_data"], "gen": ["roundtrip_data", "avp_lengths", "rfc_messages", "value_products"],
        "rule": "the complete product ids x Ns/Nr x priority x length {absent, exact} x offset {absent, 0, 1, |data|-1} x "
                "|data| {1,2,17} plus seeded random data messages (payload up to 60 000 octets)",
        "assumptions": COMMON_ASSUMPTIONS,
    },
    "C05": {
        "mc": DEC_MODELS + ["dec_flagsq"], "gen": ["decode", "avps", "payload", "flags", "ignored", "decode_big", "many_avps", "small_values", "bits", "avp_lengths", "kind_pairs", "octet_sweep", "text_classes", "rfc_messages", "record_product", "value_products"],
        "rule": "every decode outcome (verdict, value field for field, per-record results) compared with the TLA+ "
                "decoder's result for the same octets: TLC boundary grammars, flag words under all option sets, seeded "
                "random / mutated / raw inputs, and pairs differing only in octets the specification ignores",
        "assumptions": COMMON_ASSUMPTIONS,
    },
    "C06": {
        "mc": ENC_MODELS, "gen": ["encode", "encode_seq", "bitmask", "small_values", "many_avps", "avp_lengths", "kind_pairs", "text_classes", "rfc_messages", "value_products"],
        "rule": "octets emitted for the TLC value catalogue and for seeded random values (all AVP variants, control and "
                "data messages, in and out of the round-trip domain) compared octet for octet with the TLA+ encoder",
        "assumptions": COMMON_ASSUMPTIONS,
    },
    "C07": {
        "mc": ["enc_sizes", "enc_avps", "enc_huge", "enclen_tlc", "enclen_base", "enclen_step", "enclen_tlaps"], "gen": ["encode", "encode_seq", "small_values", "avp_lengths", "kind_pairs", "text_classes", "rfc_messages", "value_products"],
        "rule": "size boundaries of the 10-bit AVP length (values of 1015..1019, 2000 octets) and of the 16-bit message "
                "length (65 534..65 536 octets), plus seeded random values; panic iff the specification's encoder refuses; "
                "an independent walk over the emitted length fields; get_length against the emitted size",
        "assumptions": COMMON_ASSUMPTIONS,
    },
    "C08": {
        "mc": ["dec_framing", "dec_ctllen", "dec_data", "dec_loop3", "dec_loop4", "session_q", "session_t"],
        "gen": ["decode_seq", "suffix", "concat", "decode", "decode_big", "ignored", "many_avps", "avp_lengths", "kind_pairs"],
        "rule": "remaining length after every accepted decode; 1..4 messages back to back in one reader; (b, b++suffix) "
                "pairs; AVP record concatenations against the records alone; TLC: SuffixIndependent on every accepted run, "
                "BackToBack / AtBoundary on the session machine",
        "assumptions": COMMON_ASSUMPTIONS,
    },
    "C09": {
        "mc": ["enc_avps", "enc_msgs", "enc_sizes", "session_q", "session_t", "enclen_tlc", "enclen_base", "enclen_step", "enclen_tlaps"], "gen": ["encode", "encode_seq", "many_avps", "avp_lengths", "kind_pairs", "rfc_messages"],
        "rule": "encodes into writers pre-filled with 0..300 octets (VecWriter and a monitoring writer that logs every "
                "append and positional overwrite), sequences of 1..5 values into one writer; TLC: OnlyAppend / "
                "PatchInsideFrame / AppendOrPatch on the Encoder machine, WriterIsConcat on the session machine",
        "assumptions": COMMON_ASSUMPTIONS,
    },
    "C10": {
        "mc": ["dec_framing", "dec_avprec", "dec_recprod", "dec_kinds", "dec_data", "dec_loop3", "dec_loop4"], "gen": ["chain", "many_avps", "small_values", "avp_lengths", "kind_pairs", "octet_sweep", "text_classes", "rfc_messages", "value_products"],
        "rule": "decode -> encode -> strict decode -> encode chains from non-canonical accepted inputs (reserved bits, P/O "
                "and version under lax options, unset M bit, reserved AVP bits, surplus payload, trailing octets) under "
                "all option sets; TLC: Normalises on every accepted run of the decoder grammars",
        "assumptions": COMMON_ASSUMPTIONS,
    },
    "C11": {
        "mc": ["hid_hide", "hid_tlaps"], "gen": ["hide_reveal", "reveal_plain", "hide", "text_classes"],
        "rule": "all 39 kinds x secrets {empty,1,15,64 octets,...} x length paddings hitting 1..6 (thorough: ..63) blocks and "
                "exact multiples of 16; directly and after encode/decode of the hidden AVP; TLC: RevealHide with a toy "
                "hash over every plaintext length for 1..4 blocks and paddings 0..20",
        "assumptions": COMMON_ASSUMPTIONS,
    },
    "C12": {
        "mc": ["hid_hide", "hid_tlaps"], "gen": ["hide", "hide_reveal", "reveal", "history", "text_classes", "reveal_plain"],
        "rule": "hidden values compared with RFC 2661 s4.3 computed by TLC with MD5 written in TLA+ (RFC 1321 vectors "
                "assumed at load); block counts 1..8 (thorough: ..63); reveal of arbitrary hidden values likewise; "
                "TLC: declarative definition = in-place loops, HiddenLength",
        "assumptions": COMMON_ASSUMPTIONS + ["MD5 in TLC costs ~30 ms per block, so cases are chosen rather than many"],
    },
    "C13": {
        "mc": ["hid_reveal"], "gen": ["reveal", "text_classes", "reveal_plain"],
        "rule": "the reveal machine explored by TLC with the decrypted length field at every boundary against every value "
                "size (each behaviour replayed with a crafted ciphertext), random values under wrong keys, empty and "
                "misaligned values, every attribute-type class",
        "assumptions": COMMON_ASSUMPTIONS + ["crafting adversarial ciphertexts uses the md5 crate; verdicts come from the TLA+ MD5"],
    },
    "C14": {
        "mc": ["dec_flagsq", "dec_flagsall", "dec_framing"], "gen": ["flags", "bits"],
        "rule": "flag words (quick: all T/L/S/O/P x 5 version nibbles x 9 reserved patterns + random; thorough: all 65 536) "
                "followed by a matching control / data tail, decoded under all 8 option sets and the default entry in one "
                "event: monotonicity and exactness on the implementation's own results and against the specification",
        "assumptions": COMMON_ASSUMPTIONS + ["complete for the flag word in the thorough tier; tails are samples"],
        "exhaustive_thorough": True,
    },
    "C15": {
        "mc": ["dec_loop3", "dec_loop4", "dec_avprec", "dec_recprod", "dec_ctllen"], "gen": ["ctl_records", "many_avps", "kind_pairs", "record_product"],
        "rule": "all sequences of up to 3 (thorough: 4) records from 8 classes (valid Message Type, other valid, "
                "undecodable, unknown type, vendor, hidden, length < 6, overrun) explored by TLC and replayed; random "
                "assemblies of up to 12 good / bad records; error count and order, all-or-nothing",
        "assumptions": COMMON_ASSUMPTIONS,
    },
    "C16": {
        "mc": ["enums"], "gen": ["enum"],
        "rule": "every 16-bit code of every enumerated field through the crate (one-AVP bodies, conversion API) and, "
                "independently, through the specification (65 536 TLC states); every named value encoded",
        "assumptions": COMMON_ASSUMPTIONS, "exhaustive": True,
    },
    "C17": {
        "mc": ["enc_avps"], "gen": ["bitmask"],
        "rule": "4 kinds x 4 constructor combinations (complete); ALL 2^32 wire words of every kind swept inside the harness against the bits the constructor sets (the specification pins those to the layout); also wire words: all one-bit, all complements, two-bit with "
                "bits 6/7/30/31, random; accessor = the bit learned from the constructor",
        "assumptions": COMMON_ASSUMPTIONS + ["all 2^32 wire words are swept in the release build (and in the debug-assertion build in the thorough tier; 2^28 of them in the quick tier)"], "exhaustive": True,
    },
    "C18": {
        "mc": ["reader_q", "reader_t", "writer_q", "writer_t"], "gen": ["cursor", "vecwriter"], "canonical": True,
        "rule": "every operation sequence of the cursor / buffer machines up to depth 3 (thorough: 4 / 5) explored by TLC "
                "and replayed on SliceReader / VecWriter; long seeded random sequences",
        "assumptions": COMMON_ASSUMPTIONS + ["unchecked reads are only issued when enabled in the model"],
    },
    "C19": {
        "mc": ["session_q", "session_t"], "gen": ["threads", "history", "decode", "encode", "chain", "roundtrip_ctl"],
        "rule": "octets the worker process put on fd 1 / fd 2 around every call (measured per case); the same calls from 16 "
                "threads at once (2 rounds, different rotations) and from one thread repeated in 3 different orders, each "
                "result compared with the specification's function of its own arguments",
        "assumptions": COMMON_ASSUMPTIONS + ["the harness itself prints nothing (panic hook silenced)"],
    },
    "C20": {
        "mc": ["dec_kinds", "dec_avprec"], "gen": ["fault", "fault_sweep", "render"],
        "rule": "single-fault injection into valid messages for each pinned error identity (the specification first "
                "confirms the base is valid and the fault single); Display of every variant, for AVP-carrying variants "
                "over attribute numbers (thorough: all 65 536)",
        "assumptions": COMMON_ASSUMPTIONS,
    },
}


def _wrap_control(records):
    body = [0, 8, 0, 0, 0, 0, 0, 6] + list(records)          # Message Type = Hello, then the records
    n = 12 + len(body)
    return [0x13, 0x20, (n >> 8) & 255, n & 255, 0, 1, 0, 2, 0, 3, 0, 4] + body


def _split_records(msg):
    """records of a control message whose Length is exact (generator-side parsing, not an oracle):
    walk the AVP length fields; an unusable length makes the rest one last record"""
    if len(msg) < 12 or not (msg[0] & 1) or (msg[2] << 8 | msg[3]) != len(msg):
        return None
    body, recs, i = msg[12:], [], 0
    while i < len(body):
        if len(body) - i < 6:
            return None                       # trailing junk: not a sequence of records
        n = (body[i] >> 6) << 8 | body[i + 1]
        if n < 6 or i + n > len(body):
            recs.append(body[i:])
            return recs
        recs.append(body[i:i + n])
        i += n
    return recs


def _host_of(n):
    return [(i * 7) % 256 for i in range(1, n + 1)]


def catalog_cases(prop, model, replay):
    """turn the behaviours exported by a TLC model into cases for the implementation"""
    rdr = "all" if PROPS[prop].get("readers") == "all" else "slice"
    out = []

    def add(c):
        c["src"] = "tlc:" + model
        out.append(c)

    for n, r in enumerate(replay):
        if model.startswith("dec_flags"):
            add({"op": "decode_opts", "in": r["in"]})
        elif model.startswith("dec_"):
            mode = r.get("mode")
            if mode == "msg":
                add({"op": "decode", "in": r["in"], "opts": r["opts"], "entry": "validate", "rdr": rdr})
                if prop == "C15":
                    recs = _split_records(r["in"])
                    if recs is not None:
                        add({"op": "ctl_records", "in": r["in"], "recs": recs})
                if prop == "C10" and r.get("res") == "ok":
                    add({"op": "chain", "in": r["in"], "opts": r["opts"]})
                if prop == "C08" and r.get("res") == "ok":
                    add({"op": "decode_suffix", "in": r["in"], "suffix": [n % 256, 7, 7], "opts": r["opts"], "entry": "validate"})
            elif mode == "avps":
                add({"op": "decode_avps", "in": r["in"], "rdr": rdr})
                if prop == "C10":
                    # the same records inside a control message, behind a Message Type
                    add({"op": "chain", "in": _wrap_control(r["in"]), "opts": [True, True, True]})
            elif mode == "payload":
                add({"op": "decode_payload", "t": r["t"], "in": r["in"], "rdr": rdr})
                if prop == "C10" and len(r["in"]) <= 1017:
                    n = 6 + len(r["in"])
                    rec = [((n >> 8) & 3) << 6 | 1, n & 255, 0, 0, (r["t"] >> 8) & 255, r["t"] & 255] + r["in"]
                    add({"op": "chain", "in": _wrap_control(rec), "opts": [True, True, True]})
        elif model.startswith("enc_"):
            add({"op": "encode", "kind": r["kind"], "v": r["v"], "prefix": r["prefix"], "wr": "mon" if n % 2 else "vec"})
            if not r["prefix"]:
                add({"op": "roundtrip", "kind": r["kind"], "v": r["v"]})
        elif model == "hid_reveal":
            add({"op": "reveal", "t": r["t"], "plain": r["plain"], "secret": [5], "rv": [222, 173, 190, 239]})
        elif model == "hid_hide":
            if n % 7 == 0 or prop in ("C11",) and n % 3 == 0:     # MD5 in TLC is slow: a sample of the hide family
                add({"op": "hide_reveal", "v": {"k": "HostName", "f": [_host_of(r["n"])]}, "secret": r["secret"],
                     "rv": [222, 173, 190, 239], "lp": [255 - i for i in range(1, r["lp"] + 1)],
                     "ap": [100 + i for i in range(1, 17)]})
        elif model.startswith("reader_"):
            add({"op": "cursor", "slice": r["slice"], "ops": r["ops"]})
        elif model.startswith("writer_"):
            add({"op": "vecwriter", "ops": r["ops"]})
        elif model.startswith("session_"):
            for buf, msgs in zip(r["bufs"], r["msgs"]):
                add({"op": "decode_seq", "in": buf, "opts": [True, True, True], "entry": "validate", "max": 8})
                add({"op": "encode_seq", "items": [{"kind": "msg", "v": m} for m in msgs]})
    return out


def _is_control_input(ev):
    b = ev.get("in") or []
    return len(b) >= 1 and (b[0] & 1) == 1


def owns(prop, ev, tag):
    """does failure `tag` on event `ev` contradict property `prop`?

    Each property owns only the tags that follow from ITS statement, so that a check never raises an alarm
    on code where its property holds (a value that is wrong but consistently so is C05's / C06's business,
    not C03's, C08's, C10's, C14's or C19's)."""
    e = ev.get("e")
    died = tag in DIED
    if tag == "io":
        return prop == "C19"
    if prop == "C19":
        # the same call gave different results on different threads / after different histories
        return tag == "nondeterministic"
    if prop == "C01":
        return e in DECODE_EVENTS + ("ctl_records",) and (died or tag == "empty-errors")
    if prop == "C02":
        if e == "reveal":
            # reveal() drives its own SliceReader, which cannot be replaced by a monitoring reader: an
            # out-of-range request shows as the slice bounds check (or std's unsafe-precondition check) firing
            msg = str(ev.get("out", {}).get("v", ""))
            return died and ev.get("died") is None and any(w in msg for w in ("out of range", "unsafe precondition", "range end index", "range start index"))
        return e in DECODE_EVENTS and tag in ("reader-contract", "reader-diff")
    if prop == "C05":
        # (a panic is C05's only where the specification accepts the input: tag `unaccepted`)
        return e in ("decode", "decode_avps", "decode_payload", "decode_opts", "decode_bits") and "fault" not in ev \
            and tag in ("verdict", "value", "unaccepted")
    if prop in ("C03", "C04"):
        # the round-trip relation on the implementation's own values
        is_data = ev.get("kind") == "msg" and ev.get("v", {}).get("k") == "Data"
        return e in ("roundtrip", "rt_sweep") and is_data == (prop == "C04") and (died or tag in ("roundtrip", "native-eq"))
    if prop == "C06":
        if e in ("bitmask", "bitmask_sweep"):
            return tag in ("bitmask-layout", "bitmask-reencode")
        # (a refusal of a value that is within the size limits produces no octets at all: C06's, not C07's)
        return e in ("encode", "encode_seq", "roundtrip", "chain") and tag in ("octets", "unexpected-panic")
    if prop == "C07":
        return e in ("encode", "encode_seq", "roundtrip", "hide") and tag in (
            "length-field", "get-length", "get-length-spec", "oversize-accepted")
    if prop == "C08":
        # consumed extent and independence of what follows; wrong values as such are C05's business
        return e in ("decode_seq", "decode_suffix", "avps_concat", "decode", "decode_avps", "roundtrip") and tag in (
            "rem", "seq-start", "suffix-dependence", "concat-mismatch", "consumed-declared")
    if prop == "C09":
        # judged against the implementation's own encoding into an empty writer
        return e in ("encode", "encode_seq") and tag in ("prefix-changed", "patch-outside", "position-dependent")
    if prop == "C10":
        return e == "chain" and tag in ("not-stable-reject", "not-stable-value", "not-stable-length", "not-stable-octets",
                                        "not-stable-panic", "chain-incomplete", "native-eq")
    if prop == "C11":
        if e == "hide_reveal":
            return died or tag in ("reveal-direct", "reveal-wire", "wire-panic", "native-eq", "hide-of-hidden")
        return e == "reveal" and ev.get("v", {}).get("k") != "Hidden"
    if prop == "C12":
        # (a panic where the reference construction yields a value is a difference from the reference too)
        # ("the output depends on nothing but these inputs": a hide whose result differs between histories / threads)
        if tag == "nondeterministic":
            return e in ("hide", "hide_reveal")
        if e == "hide":
            return died or tag in ("hide-value", "hide-length", "hide-type", "hide-wire-form", "unexpected-panic")
        if e == "hide_reveal":
            return tag in ("hide-value", "hide-wire-form", "unexpected-panic", "oversize-accepted")
        # ("forall hidden h: reveal(h,s,rv) = ref_reveal(h,s,rv)")
        return e == "reveal" and ev.get("v", {}).get("k") == "Hidden" and (died or tag == "reveal-value")
    if prop == "C13":
        return e == "reveal" and ev.get("v", {}).get("k") == "Hidden" and (died or tag in ("reveal-kind", "reveal-accepts-bad"))
    if prop == "C14":
        # relations between the results under different option sets, on the implementation's own results
        # (a panic under every option set alike is C01's; one that makes the option sets DIFFER shows as opts-monotone)
        return e in ("decode_opts", "decode_bits") and tag in (
            "opts-monotone", "default-entry", "version-exact", "reserved-exact", "unused-exact", "bits-affect-result")
    if prop == "C15":
        # the acceptance rule applied to the implementation's own per-record results
        # (the statement promises a definite outcome for every such message -- Ok iff no record is bad, else one
        #  error per bad record -- so a panic here contradicts it too)
        return e == "ctl_records" and (died or tag in ("all-or-nothing", "error-count", "error-order", "empty-errors"))
    if prop == "C16":
        if e == "decode" and ev.get("enum_many"):
            return died or tag == "verdict"          # a message full of unassigned codes must still be rejected
        return e in ("enum_map", "enum_names")
    if prop == "C17":
        # which bit carries which flag is C06's layout, and so is the header of the re-encoded record
        if e == "bitmask_sweep":
            return tag != "bitmask-layout"
        return e == "bitmask" and tag not in ("bitmask-layout", "bitmask-reencode")
    if prop == "C18":
        return e in ("cursor", "vecwriter")
    if prop == "C20":
        return e in ("render", "fault_sweep") or (e == "decode" and "fault" in ev)
    return False
