"""Which models, case sources and failure tags decide which property."""

DEC_ACTIONS_MSG = ["Flags", "Version", "Reserved", "Dispatch"]
DEC_ACTIONS_CTL = ["CtlUnused", "CtlBits", "CtlHeader", "CtlLength", "CtlCarve", "CtlFirst", "CtlCollect"]
DEC_ACTIONS_AVP = ["AvpHeader", "AvpLength", "AvpVendor", "AvpHidden", "AvpType", "AvpMin", "AvpField"]
DEC_ACTIONS_DATA = ["DataMin", "DataFields", "DataOffset", "DataSkip", "DataExtent", "DataPayload"]

MC_MODELS = {
    "dec_framing": {"module": "MCDecoder.tla", "cfg": "MCDecoder_framing.cfg",
                    "expect_actions": DEC_ACTIONS_MSG + DEC_ACTIONS_CTL + DEC_ACTIONS_DATA + ["AvpHeader", "AvpField"]},
    "dec_ctllen": {"module": "MCDecoder.tla", "cfg": "MCDecoder_ctllen.cfg",
                   "expect_actions": DEC_ACTIONS_MSG + DEC_ACTIONS_CTL + ["AvpHeader", "AvpLength", "AvpField"]},
    "dec_avprec": {"module": "MCDecoder.tla", "cfg": "MCDecoder_avprec.cfg",
                   "expect_actions": DEC_ACTIONS_CTL + DEC_ACTIONS_AVP + ["GreedyDone"]},
    "dec_kinds": {"module": "MCDecoder.tla", "cfg": "MCDecoder_kinds.cfg",
                  "expect_actions": DEC_ACTIONS_AVP + ["GreedyDone"]},
    "dec_loop3": {"module": "MCDecoder.tla", "cfg": "MCDecoder_loop3.cfg",
                  "expect_actions": DEC_ACTIONS_CTL + DEC_ACTIONS_AVP + ["GreedyDone"]},
    "dec_loop4": {"module": "MCDecoder.tla", "cfg": "MCDecoder_loop4.cfg", "thorough_only": True,
                  "expect_actions": DEC_ACTIONS_CTL + DEC_ACTIONS_AVP + ["GreedyDone"]},
    "dec_data": {"module": "MCDecoder.tla", "cfg": "MCDecoder_data.cfg",
                 "expect_actions": DEC_ACTIONS_MSG + DEC_ACTIONS_DATA},
}

DEC_MODELS = ["dec_framing", "dec_ctllen", "dec_avprec", "dec_kinds", "dec_loop3", "dec_data"]

DECODE_EVENTS = ("decode", "decode_avps", "decode_payload", "decode_seq")
DIED = ("outcome-panic", "outcome-abort", "outcome-timeout")

PROPS = {
    "C01": {
        "mc": DEC_MODELS, "gen": ["decode", "avps", "payload"],
        "rule": "TLC-explored boundary grammars of the decoder machine (every run exported and replayed) + seeded "
                "random/mutated/raw inputs; distinct = distinct (operation, input, options) cases",
        "assumptions": ["inputs <= 2 KiB except targeted cases", "per-case watchdog 20 s (quick) / 60 s (thorough)"],
    },
    "C02": {
        "mc": DEC_MODELS, "gen": ["decode_readers", "avps_readers", "payload_readers"], "readers": "all",
        "rule": "as C01, every input decoded through SliceReader, a monitoring reader that logs each request, and a "
                "queue-backed reader; requests validated against the Reader contract machine",
        "assumptions": ["undefined behaviour inside SliceReader is observed only through its contract (C18) and "
                        "std's debug precondition checks in the dev build"],
    },
    "C05": {
        "mc": DEC_MODELS, "gen": ["decode", "avps", "payload"],
        "rule": "as C01; every outcome compared with the specification's decode of the same octets",
        "assumptions": [],
    },
}


def catalog_cases(prop, model, replay):
    """turn the behaviours exported by a TLC model into cases for the implementation"""
    rdr = "all" if PROPS[prop].get("readers") == "all" else "slice"
    out = []
    for r in replay:
        mode = r.get("mode")
        if mode == "msg":
            out.append({"op": "decode", "in": r["in"], "opts": r["opts"], "entry": "validate", "rdr": rdr})
        elif mode == "avps":
            out.append({"op": "decode_avps", "in": r["in"], "rdr": rdr})
        elif mode == "payload":
            out.append({"op": "decode_payload", "t": r["t"], "in": r["in"], "rdr": rdr})
        else:
            continue
        out[-1]["src"] = "tlc:" + model
        out[-1]["exp"] = r.get("res")
    return out


def owns(prop, ev, tag):
    """does failure `tag` on event `ev` contradict property `prop`?"""
    e = ev.get("e")
    if prop == "C01":
        return e in DECODE_EVENTS and (tag in DIED or tag == "empty-errors")
    if prop == "C02":
        return e in DECODE_EVENTS and tag in ("reader-contract", "reader-diff")
    if prop == "C05":
        return e in ("decode", "decode_avps", "decode_payload") and (tag in DIED or tag in ("verdict", "value"))
    return False
