"""check <PROPERTY> [--tier quick|thorough] [--replay <path>] [--keep]

Decides one property of /verif/properties.jsonl for the current working tree of /repo:

  1. builds the conformance harness (dev + release profile) against /repo as it is now;
  2. model-checks the property's TLA+ models with TLC (invariants, temporal properties,
     per-action coverage) and collects the behaviours they export;
  3. runs those behaviours plus generated cases through the real crate (both builds),
     recording one event per call;
  4. validates the recorded events against the specification with TLC (trace validation);
  5. reports: exit 0 = held on everything explored, exit 1 + "VIOLATION property=<id> replay=<path>",
     exit 2 = tool error / timeout (never silently 0).  Writes /verif/evidence/<id>.json.

Python standard library only.
"""
import sys, os, json, subprocess, time, shutil, re, hashlib, fcntl, signal

from plan import PROPS, MC_MODELS, catalog_cases, owns  # noqa: E402

VERIF = os.path.abspath(os.path.join(os.path.dirname(os.path.abspath(__file__)), ".."))
SPEC = os.path.join(VERIF, "spec")
HARNESS = os.path.join(VERIF, "harness")
WORK = os.path.join(VERIF, "work")
TLA_CP = "/opt/veriftools/tla/tla2tools.jar:/opt/veriftools/tla/CommunityModules-deps.jar"
NCPU = os.cpu_count() or 4


class ToolError(Exception):
    pass


def log(*a):
    print("[check]", *a, file=sys.stderr, flush=True)


# ------------------------------------------------------------------------------------------
# build

def build_harness():
    """build rlv (dev + release) against the crate's current working tree.
    The crate is /repo; for development (mutants in scratch worktrees) RLV_REPO may name another
    checkout, in which case a private copy of the harness pointing there is built under work/."""
    env = dict(os.environ, CARGO_NET_OFFLINE="true")
    repo = os.environ.get("RLV_REPO", "/repo")
    hdir = HARNESS
    lock = open(os.path.join(WORK, ".build.lock"), "w")
    fcntl.flock(lock, fcntl.LOCK_EX)
    try:
        if repo != "/repo":
            tag = hashlib.sha1(os.path.abspath(repo).encode()).hexdigest()[:10]
            hdir = os.path.join(WORK, "harness-" + tag)
            os.makedirs(os.path.join(hdir, ".cargo"), exist_ok=True)
            shutil.rmtree(os.path.join(hdir, "src"), ignore_errors=True)
            shutil.copytree(os.path.join(HARNESS, "src"), os.path.join(hdir, "src"))
            shutil.copy(os.path.join(HARNESS, ".cargo", "config.toml"), os.path.join(hdir, ".cargo", "config.toml"))
            toml = open(os.path.join(HARNESS, "Cargo.toml")).read().replace('path = "/repo"', 'path = "%s"' % os.path.abspath(repo))
            open(os.path.join(hdir, "Cargo.toml"), "w").write(toml)
            shutil.copy(os.path.join(HARNESS, "Cargo.lock"), os.path.join(hdir, "Cargo.lock"))
        lockfile = os.path.join(hdir, "Cargo.lock")
        if not os.path.exists(lockfile):
            shutil.copy(os.path.join(repo, "Cargo.lock"), lockfile)
        # The harness implements the crate's public Reader and Writer traits itself.  When a change to those
        # traits (a new required method, say) makes these implementations stop compiling, fall back to a build
        # without them -- SliceReader / VecWriter only -- rather than being unable to decide anything; the
        # properties that NEED the custom implementations (C02) then report a tool error of their own.
        variants = [("full", []),
                    ("no-custom-readers", ["--no-default-features", "--features", "custom_writers"]),
                    ("no-custom-writers", ["--no-default-features", "--features", "custom_readers"]),
                    ("no-custom-readers-or-writers", ["--no-default-features"])]
        mode, last = None, ""
        for name, feat in variants:
            ok = True
            for prof in ([], ["--release"]):
                t0 = time.time()
                r = subprocess.run(["cargo", "build", "--offline", "-q"] + feat + prof, cwd=hdir, env=env,
                                   stdout=subprocess.PIPE, stderr=subprocess.STDOUT, text=True)
                if r.returncode != 0:
                    ok = False
                    last = r.stdout
                    break
                log("built harness %s%s in %.1fs" % ("release" if prof else "dev", "" if name == "full" else " (%s)" % name, time.time() - t0))
            if ok:
                mode = name
                break
        if mode is None:
            raise ToolError("harness build failed:\n%s" % last[-4000:])
        if mode != "full":
            log("FALLBACK BUILD %s: the harness's own implementations of the crate's Reader / Writer traits no longer "
                "compile against this tree (the public trait changed)" % mode)
    finally:
        fcntl.flock(lock, fcntl.LOCK_UN)
        lock.close()
    return {"dev": os.path.join(hdir, "target", "debug", "rlv"),
            "rel": os.path.join(hdir, "target", "release", "rlv"), "mode": mode}


# ------------------------------------------------------------------------------------------
# TLC

def tlc_cmd(module, cfg, metadir, workers, extra_jvm=(), extra=()):
    # (TLC unpacks the standard modules into java.io.tmpdir on every run: keep that inside the run's own directory,
    #  which is removed afterwards, instead of littering /tmp)
    jvm = ["java", "-Xss1g", "-Djava.io.tmpdir=" + metadir,
           "-DTLA-Library=" + SPEC + ":" + os.path.join(SPEC, "mc") + ":" + os.path.join(SPEC, "trace")]
    jvm += list(extra_jvm)
    return jvm + ["-cp", TLA_CP, "tlc2.TLC", "-workers", str(workers), "-metadir", metadir, "-cleanup",
                  "-noGenerateSpecTE", "-config", cfg] + list(extra) + [module]


COV_RE = re.compile(r"^<(\w+) line \d+, col \d+ to line \d+, col \d+ of module (\w+)>: (\d+):(\d+)")


def _spec_hash():
    h = hashlib.sha1()
    for root, _, files in sorted(os.walk(SPEC)):
        for f in sorted(files):
            if f.endswith((".tla", ".cfg")):
                h.update(f.encode())
                h.update(open(os.path.join(root, f), "rb").read())
    return h.hexdigest()[:16]


def run_mc_models(names, workdir, tier):
    """RLV_MC_CACHE=<dir> (development aid for bin/mutant-matrix only: the models do not depend on the crate, so
    re-running them for every changed tree is wasted time) keeps the results of successful model runs, keyed on
    the contents of spec/; the registered checks never set it."""
    cache = os.environ.get("RLV_MC_CACHE")
    if not cache:
        return _run_mc_models(names, workdir, tier)
    os.makedirs(cache, exist_ok=True)
    sh = _spec_hash()
    res, todo = {}, []
    for n in names:
        cp = os.path.join(cache, "%s-%s-%s.json" % (sh, n, tier))
        if os.path.exists(cp):
            res[n] = json.load(open(cp))
        else:
            todo.append(n)
    if todo:
        fresh = _run_mc_models(todo, workdir, tier)
        for n, r in fresh.items():
            if r.get("ok") and not r.get("missing_actions"):
                tmp = os.path.join(cache, ".%s-%s-%s.%d" % (sh, n, tier, os.getpid()))
                json.dump(r, open(tmp, "w"))
                os.replace(tmp, os.path.join(cache, "%s-%s-%s.json" % (sh, n, tier)))
        res.update(fresh)
    return {n: res[n] for n in names if n in res}


def _run_mc_models(names, workdir, tier):
    """run the named models concurrently; returns per-model stats and exported behaviours"""
    procs = []
    per = max(2, min(4, NCPU // max(1, len(names))))
    for name in names:
        m = MC_MODELS[name]
        if tier == "quick" and m.get("thorough_only"):
            continue
        if tier == "thorough" and m.get("quick_only"):
            continue
        if m.get("tlaps"):
            # a TLAPS proof: the proof module and the module it is about are copied next to each other
            md = os.path.join(workdir, "mc_" + name)
            os.makedirs(md, exist_ok=True)
            logf = os.path.join(workdir, "mc_" + name + ".log")
            shutil.copy(os.path.join(SPEC, "proofs", m["tlaps"]), md)
            if m.get("module"):
                shutil.copy(os.path.join(SPEC, m["module"]), md)
            f = open(logf, "w")
            # (--stretch: the back ends' time limits are per obligation and wall-clock: on a loaded machine the default
            #  5 s can expire for an obligation that normally takes a fraction of a second)
            p = subprocess.Popen(["tlapm", "--threads", "4", "--stretch", "8", m["tlaps"]], stdout=f, stderr=subprocess.STDOUT, cwd=md)
            procs.append((name, m, p, f, logf, time.time()))
            continue
        if m.get("apalache"):
            md = os.path.join(workdir, "mc_" + name)
            os.makedirs(md, exist_ok=True)
            logf = os.path.join(workdir, "mc_" + name + ".log")
            cmd = ["apalache-mc", "check"] + m["apalache"] + ["--out-dir=" + os.path.join(md, "out"), os.path.join(SPEC, m["module"])]
            f = open(logf, "w")
            p = subprocess.Popen(cmd, stdout=f, stderr=subprocess.STDOUT, cwd=md, env=dict(os.environ, TMPDIR=md))
            procs.append((name, m, p, f, logf, time.time()))
            continue
        cfg = os.path.join(SPEC, "mc", m["cfg"])
        mod = os.path.join(SPEC, "mc", m["module"])
        md = os.path.join(workdir, "mc_" + name)
        os.makedirs(md, exist_ok=True)
        logf = os.path.join(workdir, "mc_" + name + ".log")
        # small young generation: fresh-page faults are what costs in this VM when JVMs run in parallel
        jvm = ["-XX:+UseSerialGC", "-Xms64m", "-Xmx6g", "-Xmn64m"]
        if not m.get("big"):
            jvm.append("-XX:TieredStopAtLevel=1")       # short runs: skip the optimizing JIT
        cmd = tlc_cmd(mod, cfg, md, per, extra_jvm=jvm)
        f = open(logf, "w")
        p = subprocess.Popen(cmd, stdout=f, stderr=subprocess.STDOUT, cwd=md)
        procs.append((name, m, p, f, logf, time.time()))
    results = {}
    for name, m, p, f, logf, t0 in procs:
        limit = m.get("timeout", 600 if tier == "quick" else 3600)
        try:
            p.wait(timeout=max(1, limit - (time.time() - t0)))
        except subprocess.TimeoutExpired:
            p.kill()
            raise ToolError("TLC model %s timed out after %ds" % (name, limit))
        f.close()
        text = open(logf, errors="replace").read()
        if m.get("tlaps"):
            mm = re.search(r"All (\d+) obligations? proved", text)
            if p.returncode != 0 or not mm:
                results[name] = {"ok": False, "kind": "failed", "log": logf, "tail": "\n".join(text.splitlines()[-30:])}
            else:
                results[name] = {"ok": True, "generated": int(mm.group(1)), "distinct": int(mm.group(1)), "coverage": {}, "missing_actions": [],
                                 "replay": [], "wall_s": round(time.time() - t0, 1), "log": logf, "tlaps_obligations": int(mm.group(1))}
                log("tlaps %s: all %s obligations proved, %.1fs" % (name, mm.group(1), time.time() - t0))
            continue
        if m.get("apalache"):
            if p.returncode != 0 or "EXITCODE: OK" not in text:
                results[name] = {"ok": False, "kind": "failed", "log": logf, "tail": "\n".join(text.splitlines()[-30:])}
            else:
                results[name] = {"ok": True, "generated": 1, "distinct": 1, "coverage": {}, "missing_actions": [], "replay": [],
                                 "wall_s": round(time.time() - t0, 1), "log": logf, "apalache": " ".join(m["apalache"])}
                log("apalache %s: inductive step discharged, %.1fs" % (name, time.time() - t0))
            continue
        if p.returncode != 0 or "Model checking completed. No error has been found." not in text:
            tail = "\n".join(text.splitlines()[-40:])
            kind = "violated" if ("is violated" in text or "violated" in text) else "failed"
            results[name] = {"ok": False, "kind": kind, "log": logf, "tail": tail}
            continue
        gen = dist = 0
        mm = re.search(r"(\d+) states generated, (\d+) distinct states found", text)
        if mm:
            gen, dist = int(mm.group(1)), int(mm.group(2))
        replay = []
        for line in text.splitlines():
            if line.startswith('<<"REPLAY", "'):
                body = line[len('<<"REPLAY", '):].rstrip()
                if body.endswith(">>"):
                    body = body[:-2]
                try:
                    replay.append(json.loads(json.loads(body)))
                except Exception:
                    raise ToolError("cannot parse REPLAY line of %s: %s" % (name, line[:200]))
        # coverage of the explored behaviours (vacuity check): how often each program counter /
        # operation occurs on the exported paths.  (TLC's own -coverage slows the deep recursive
        # invariants ~5x, so the models carry the path as a variable instead.)
        cov = {}
        for r in replay:
            for pc in r.get("path", []):
                cov[pc] = cov.get(pc, 0) + 1
            for op in r.get("ops", []):
                key = "op:" + str(op[1] if isinstance(op[0], int) else op[0])
                cov[key] = cov.get(key, 0) + 1
        missing = [a for a in m.get("expect_pcs", []) if cov.get(a, 0) == 0]
        for label, pred in m.get("expect_replay", {}).items():
            if not any(pred(r) for r in replay):
                missing.append("behaviour:" + label)
        results[name] = {"ok": True, "generated": gen, "distinct": dist, "coverage": cov,
                         "missing_actions": missing, "replay": replay, "wall_s": round(time.time() - t0, 1), "log": logf}
        log("model %s: %d states (%d distinct), %d behaviours exported, %.1fs" % (name, gen, dist, len(replay), time.time() - t0))
    return results


# ------------------------------------------------------------------------------------------
# running the implementation

def synth_event(case, idx, build, outcome):
    ev = {k: v for k, v in case.items() if k != "op"}
    ev["e"] = case.get("op")
    ev["idx"] = idx
    ev["build"] = build
    ev["io"] = [0, 0]
    ev["died"] = outcome          # "abort" | "timeout": the process died while running this case
    return ev


def run_worker(binary, build, cases_path, cases, workdir, stall_s):
    events_path = os.path.join(workdir, "events_%s.ndjson" % build)
    prog = os.path.join(workdir, "progress_%s" % build)
    out_path = os.path.join(workdir, "stdout_%s.txt" % build)
    err_path = os.path.join(workdir, "stderr_%s.txt" % build)
    for p in (events_path, prog, out_path, err_path):
        if os.path.exists(p):
            os.remove(p)
    start = 0
    deaths = []
    while start < len(cases):
        with open(out_path, "ab") as fo, open(err_path, "ab") as fe:
            p = subprocess.Popen([binary, "worker", cases_path, events_path, prog, str(start)], stdout=fo, stderr=fe)
            last_prog, last_change = None, time.time()
            while True:
                try:
                    p.wait(timeout=0.05)
                    break
                except subprocess.TimeoutExpired:
                    pass
                try:
                    cur = open(prog).read()
                except OSError:
                    cur = None
                if cur != last_prog:
                    last_prog, last_change = cur, time.time()
                elif time.time() - last_change > stall_s:
                    p.kill()
                    p.wait()
                    break
        try:
            cur = open(prog).read().strip()
        except OSError:
            cur = ""
        if p.returncode == 0 and cur == "done":
            break
        if cur == "" or cur == "done":
            raise ToolError("worker (%s) died before starting a case (exit %s)" % (build, p.returncode))
        idx = int(cur)
        outcome = "timeout" if p.returncode in (-9, -signal.SIGKILL) else "abort"
        deaths.append((idx, outcome))
        with open(events_path, "a") as f:
            f.write(json.dumps(synth_event(cases[idx], idx, build, outcome)) + "\n")
        start = idx + 1
        # a hang costs the whole stall time: after a few of them the verdict is clear and the rest of the
        # cases are skipped (they are reported as not run); aborts are cheap, allow many
        if sum(1 for _, o in deaths if o == "timeout") >= 3:
            log("worker (%s): 3 cases hung; remaining %d cases not run" % (build, len(cases) - start))
            break
        if len(deaths) > 2000:
            raise ToolError("worker (%s) died more than 2000 times" % build)
    events = []
    if os.path.exists(events_path):
        for line in open(events_path):
            line = line.strip()
            if line:
                events.append(json.loads(line))
    return events, os.path.getsize(out_path), os.path.getsize(err_path)


def merge_builds(dev, rel):
    """events that are identical in both builds are validated once"""
    def key(e):
        return json.dumps({k: v for k, v in e.items() if k != "build"}, sort_keys=True)
    out = []
    by_idx = {}
    for e in rel:
        by_idx.setdefault(e["idx"], []).append(e)
    seen_rel = set()
    for e in dev:
        twins = by_idx.get(e["idx"], [])
        k = key(e)
        hit = None
        for i, t in enumerate(twins):
            if (e["idx"], i) not in seen_rel and key(t) == k:
                hit = i
                break
        if hit is not None:
            seen_rel.add((e["idx"], hit))
            e = dict(e)
            e["build"] = "dev+rel"
            out.append(e)
        else:
            out.append(e)
    for idx, twins in by_idx.items():
        for i, t in enumerate(twins):
            if (idx, i) not in seen_rel:
                out.append(t)
    out.sort(key=lambda e: (e["idx"], e["build"]))
    return out


# ------------------------------------------------------------------------------------------
# trace validation

def validate(events, workdir, max_shards):
    if not events:
        return [], 0, 0
    # cost-balanced shards (cost ~ serialized size)
    lines = [json.dumps(e, separators=(",", ":")) for e in events]
    total = sum(len(x) for x in lines)
    n_shards = max(1, min(max_shards, len(events), max(len(events) // 200 + 1, total // 1_000_000 + 1)))
    shards = [[] for _ in range(n_shards)]
    loads = [0] * n_shards
    # events of one threaded / repeated case must meet in one shard (the trace spec remembers the first
    # outcome of each call and compares later ones with it); everything else is placed individually
    groups = {}
    for i, e in enumerate(events):
        key = ("case", e.get("idx")) if "sig" in e else ("ev", i)
        groups.setdefault(key, []).append(i)
    glist = sorted(groups.values(), key=lambda g: -sum(len(lines[i]) + 200 for i in g))
    for g in glist:
        j = loads.index(min(loads))
        shards[j].extend(g)
        loads[j] += sum(len(lines[i]) + 200 for i in g)
    procs = []
    for j, idxs in enumerate(shards):
        idxs.sort()
        tpath = os.path.join(workdir, "trace_%d.ndjson" % j)
        rpath = os.path.join(workdir, "result_%d.ndjson" % j)
        if os.path.exists(rpath):
            os.remove(rpath)
        with open(tpath, "w") as f:
            for i in idxs:
                f.write(lines[i] + "\n")
        md = os.path.join(workdir, "tv_%d" % j)
        os.makedirs(md, exist_ok=True)
        cmd = tlc_cmd(os.path.join(SPEC, "trace", "Trace.tla"), os.path.join(SPEC, "trace", "Trace.cfg"), md, 1,
                      extra_jvm=["-XX:+UseSerialGC", "-Xms64m", "-Xmx4g", "-Xmn64m", "-Dtlc2.tool.queue.IStateQueue=StateDeque"]
                      + (["-XX:TieredStopAtLevel=1"] if loads[j] < 40_000_000 else []))
        env = dict(os.environ, TRACE=tpath, RESULT=rpath)
        logf = open(os.path.join(workdir, "tv_%d.log" % j), "w")
        procs.append((j, idxs, rpath, subprocess.Popen(cmd, stdout=logf, stderr=subprocess.STDOUT, env=env, cwd=md), logf))
    fails = []
    states = 0
    for j, idxs, rpath, p, logf in procs:
        try:
            p.wait(timeout=7200)
        except subprocess.TimeoutExpired:
            p.kill()
            raise ToolError("trace validation shard %d timed out" % j)
        logf.close()
        text = open(logf.name, errors="replace").read()
        if p.returncode != 0 or not os.path.exists(rpath):
            raise ToolError("trace validation shard %d failed (exit %s); see %s\n%s"
                            % (j, p.returncode, logf.name, "\n".join(text.splitlines()[-25:])))
        res = [json.loads(x) for x in open(rpath) if x.strip()]
        head = res[0]
        if head.get("events") != len(idxs):
            raise ToolError("trace validation shard %d consumed %s of %d events" % (j, head.get("events"), len(idxs)))
        states += len(idxs) + 1
        for r in res[1:]:
            fails.append((idxs[r["line"] - 1], r["tags"]))
    fails.sort()
    return fails, states, len(shards)


def validate_canonical(events, workdir, max_shards):
    """C18 in the canonical trace-validation form (spec/trace/TraceCursor.tla): the Reader / Writer machines'
    own actions consume the recorded operations line by line; a line with no enabled action ends the
    search.  Returns the indices (into `events`) of the cursor / vecwriter events that were rejected."""
    blocks = []                      # (event index, [lines])
    for i, e in enumerate(events):
        if e.get("e") == "cursor":
            lines = [{"e": "rreset", "slice": e["slice"]}]
            for st in e.get("steps", []):
                if st.get("t") == "refused":
                    continue
                if st.get("t") != "ok":
                    lines.append({"e": "rop_panic", "op": st.get("op")})
                    break
                ln = {"e": "rop", "r": st["r"], "op": st["op"], "n": st["n"], "len": st["len"], "empty": st["empty"]}
                for k in ("ret", "newlen", "newempty"):
                    if k in st:
                        ln[k] = st[k]
                lines.append(ln)
            blocks.append((i, lines))
        elif e.get("e") == "vecwriter":
            lines = [{"e": "wreset"}]
            for st in e.get("steps", []):
                lines.append({"e": "wop", "op": st["op"], "b": st["b"], "off": st["off"], "t": st["t"],
                              "data": st["data"], "len": st["len"], "empty": st["empty"]})
            blocks.append((i, lines))
    if not blocks:
        return [], 0
    n_shards = max(1, min(max_shards, len(blocks) // 300 + 1))
    shard_blocks = [blocks[j::n_shards] for j in range(n_shards)]
    rejected, consumed = [], 0
    for round_no in range(40):
        procs = []
        for j, bl in enumerate(shard_blocks):
            if not bl:
                continue
            tpath = os.path.join(workdir, "ctrace_%d.ndjson" % j)
            with open(tpath, "w") as f:
                for _, lines in bl:
                    for ln in lines:
                        f.write(json.dumps(ln, separators=(",", ":")) + "\n")
            md = os.path.join(workdir, "ctv_%d" % j)
            os.makedirs(md, exist_ok=True)
            cmd = tlc_cmd(os.path.join(SPEC, "trace", "TraceCursor.tla"), os.path.join(SPEC, "trace", "TraceCursor.cfg"), md, 1,
                          extra_jvm=["-XX:+UseSerialGC", "-Xms64m", "-Xmx4g", "-Xmn64m", "-XX:TieredStopAtLevel=1",
                                     "-Dtlc2.tool.queue.IStateQueue=StateDeque"])
            logf = open(os.path.join(workdir, "ctv_%d.log" % j), "w")
            procs.append((j, subprocess.Popen(cmd, stdout=logf, stderr=subprocess.STDOUT, env=dict(os.environ, TRACE=tpath), cwd=md), logf))
        again = False
        for j, p, logf in procs:
            try:
                p.wait(timeout=3600)
            except subprocess.TimeoutExpired:
                p.kill()
                raise ToolError("canonical trace validation timed out")
            logf.close()
            text = open(logf.name, errors="replace").read()
            bl = shard_blocks[j]
            total = sum(len(lines) for _, lines in bl)
            m = re.search(r'<<"MATCHED", (\d+), (\d+)>>', text)
            if m:
                matched = int(m.group(1))
                # the block containing line matched+1 is rejected; drop it and validate the rest again
                acc = 0
                for k, (idx, lines) in enumerate(bl):
                    if acc + len(lines) > matched:
                        rejected.append(idx)
                        shard_blocks[j] = bl[:k] + bl[k + 1:]
                        break
                    acc += len(lines)
                again = True
            elif "Model checking completed. No error has been found." in text:
                consumed += total
                shard_blocks[j] = []
            else:
                raise ToolError("canonical trace validation failed; see %s\n%s" % (logf.name, "\n".join(text.splitlines()[-20:])))
        if not again:
            break
    return rejected, consumed


# ------------------------------------------------------------------------------------------
# known findings

def load_known(prop):
    path = os.path.join(VERIF, "known_findings.txt")
    opens = []
    if os.path.exists(path):
        for line in open(path):
            line = line.strip()
            m = re.match(r"^open: property=(\w+) match=(\{.*?\}) (.*)$", line)
            if m and m.group(1) == prop:
                opens.append((json.loads(m.group(2)), m.group(3)))
    return opens


def matches_known(match, ev, tags):
    if "e" in match and match["e"] != ev.get("e"):
        return False
    if "tag" in match and match["tag"] not in tags:
        return False
    for k, v in match.get("where", {}).items():
        if ev.get(k) != v:
            return False
    return True


# ------------------------------------------------------------------------------------------

def shorten(x, n=400):
    s = json.dumps(x)
    return json.loads(s) if len(s) <= n else {"truncated": s[:n] + "..."}


def main_all(tier, seed):
    """bin/check ALL -- development aid for bin/mutant-matrix, never registered in MANIFEST.json: the union of
    the cases of all 20 checks is run ONCE through the crate and the trace specification, and every rejected
    event is attributed to each property whose own check contains that case and owns that tag.  Prints
    `ALL-RESULT {property: [tags]}`; equivalent to running the 20 checks, at a fraction of the cost."""
    os.makedirs(WORK, exist_ok=True)
    suffix = ""
    if os.environ.get("RLV_REPO"):
        suffix = "-" + hashlib.sha1(os.path.abspath(os.environ["RLV_REPO"]).encode()).hexdigest()[:10]
    workdir = os.path.join(WORK, "ALL-%s%s" % (tier, suffix))
    shutil.rmtree(workdir, ignore_errors=True)
    os.makedirs(workdir)
    try:
        bins = build_harness()
        mc_memo, gen_memo = {}, {}
        table = {}                   # case key -> [case, set(props)]
        for prop, plan in PROPS.items():
            need = [n for n in plan["mc"] if n not in mc_memo]
            if need:
                mc_memo.update(run_mc_models(need, workdir, tier))
            cs = []
            for name in plan["mc"]:
                r = mc_memo.get(name)
                if r is None:
                    continue
                if not r["ok"] or r["missing_actions"]:
                    raise ToolError("model %s did not pass" % name)
                cs += catalog_cases(prop, name, r["replay"])
            for suite in plan["gen"]:
                if suite not in gen_memo:
                    g = subprocess.run([bins["rel"], "gen", suite, tier, str(seed)], stdout=subprocess.PIPE, stderr=subprocess.PIPE, text=True)
                    if g.returncode != 0:
                        raise ToolError("gen %s failed: %s" % (suite, g.stderr[-2000:]))
                    gen_memo[suite] = [json.loads(l) for l in g.stdout.splitlines() if l.strip()]
                for c in gen_memo[suite]:
                    c = dict(c)
                    c["src"] = "gen:" + suite
                    if plan.get("readers") == "all" and c.get("op") in ("decode", "decode_avps", "decode_payload") and "fault" not in c:
                        c["rdr"] = "all"
                    cs.append(c)
            for c in cs:
                k = json.dumps({a: b for a, b in c.items() if a not in ("id", "src")}, sort_keys=True)
                if k in table:
                    table[k][1].add(prop)
                else:
                    table[k] = [c, {prop}]
        cases, props_of = [], []
        for c, ps in table.values():
            c["id"] = len(cases)
            cases.append(c)
            props_of.append(ps)
        cases_path = os.path.join(workdir, "cases.ndjson")
        with open(cases_path, "w") as f:
            for c in cases:
                f.write(json.dumps(c, separators=(",", ":")) + "\n")
        log("%d distinct cases in the union of the 20 checks" % len(cases))
        stall = 20 if tier == "quick" else 60          # seconds without progress inside ONE case (cases take micro- to milliseconds)
        dev, _, _ = run_worker(bins["dev"], "dev", cases_path, cases, workdir, stall)
        rel, _, _ = run_worker(bins["rel"], "rel", cases_path, cases, workdir, stall)
        events = merge_builds(dev, rel)
        live = [e for e in events if "died" not in e]
        dead = [e for e in events if "died" in e]
        fails, _, n_shards = validate(live, workdir, max(1, NCPU - 2))
        rej, _ = validate_canonical(live, workdir, max(1, NCPU - 2))
        by_idx = dict(fails)
        for i in rej:
            by_idx[i] = list(by_idx.get(i, [])) + ["trace-rejected"]
        result = {}
        harness_broken = []
        for i, tags in sorted(by_idx.items()):
            ev = live[i]
            if any(t.startswith("harness") or t == "unknown-event" for t in tags):
                harness_broken.append((ev, tags))
                continue
            for prop in props_of[ev["idx"]]:
                for t in tags:
                    if owns(prop, ev, t):
                        result.setdefault(prop, set()).add(t)
        for ev in dead:
            tag = "outcome-" + ev["died"]
            for prop in props_of[ev["idx"]]:
                if owns(prop, ev, tag):
                    result.setdefault(prop, set()).add(tag)
        if harness_broken:
            ev, tags = harness_broken[0]
            raise ToolError("harness inconsistency %s on event %s" % (tags, json.dumps(shorten(ev, 1500))))
        print("ALL-RESULT " + json.dumps({k: sorted(v) for k, v in sorted(result.items())}))
        return 0
    except ToolError as e:
        print("TOOL-ERROR property=ALL %s" % e)
        return 2
    finally:
        shutil.rmtree(workdir, ignore_errors=True)


def main():
    args = sys.argv[1:]
    if not args:
        print(__doc__)
        return 2
    prop = args[0]
    tier = os.environ.get("VERIF_TIER", "quick")
    replay = None
    keep = False
    i = 1
    while i < len(args):
        if args[i] == "--tier":
            tier = args[i + 1]
            i += 2
        elif args[i] == "--replay":
            replay = args[i + 1]
            i += 2
        elif args[i] == "--keep":
            keep = True
            i += 1
        else:
            print("unknown argument", args[i])
            return 2
    if tier not in ("quick", "thorough"):
        tier = "quick"
    try:
        seed = int(os.environ.get("VERIF_SEED", "1"))
    except ValueError:
        seed = 1
    if prop == "ALL":
        return main_all(tier, seed)
    if prop not in PROPS:
        print("unknown property", prop)
        return 2
    plan = PROPS[prop]
    t_start = time.time()
    os.makedirs(WORK, exist_ok=True)
    suffix = ""
    if os.environ.get("RLV_REPO"):
        suffix = "-" + hashlib.sha1(os.path.abspath(os.environ["RLV_REPO"]).encode()).hexdigest()[:10]
    workdir = os.path.join(WORK, ("%s-%s" % (prop, tier) if not replay else "%s-replay" % prop) + suffix)
    shutil.rmtree(workdir, ignore_errors=True)
    os.makedirs(workdir)
    try:
        bins = build_harness()
        if plan.get("readers") == "all" and "readers" in bins.get("mode", "full"):
            raise ToolError("this property is decided with the harness's own Reader implementations, which do not compile "
                            "against this tree: the public Reader trait changed incompatibly")

        # ---- cases
        cases = []
        mc = {}
        if replay:
            rp = json.load(open(replay))
            cases = [rp["case"]]
        else:
            mc = run_mc_models(plan["mc"], workdir, tier)
            for name, r in mc.items():
                if not r["ok"]:
                    print("TLC model %s %s:\n%s" % (name, r["kind"], r["tail"]))
                    raise ToolError("model %s did not pass (log: %s)" % (name, r["log"]))
                if r["missing_actions"]:
                    raise ToolError("model %s never took action(s) %s: vacuous run" % (name, r["missing_actions"]))
                cases += catalog_cases(prop, name, r["replay"])
            for suite in plan["gen"]:
                g = subprocess.run([bins["rel"], "gen", suite, tier, str(seed)], stdout=subprocess.PIPE, stderr=subprocess.PIPE, text=True)
                if g.returncode != 0:
                    raise ToolError("gen %s failed: %s" % (suite, g.stderr[-2000:]))
                for line in g.stdout.splitlines():
                    if line.strip():
                        c = json.loads(line)
                        c["src"] = "gen:" + suite
                        if plan.get("readers") == "all" and c.get("op") in ("decode", "decode_avps", "decode_payload") and "fault" not in c:
                            c["rdr"] = "all"          # C02: SliceReader + logging reader + queue-backed reader
                        cases.append(c)
        for n, c in enumerate(cases):
            c["id"] = n
        cases_path = os.path.join(workdir, "cases.ndjson")
        with open(cases_path, "w") as f:
            for c in cases:
                f.write(json.dumps(c, separators=(",", ":")) + "\n")
        log("%d cases" % len(cases))

        # ---- implementation
        stall = 20 if tier == "quick" else 60          # seconds without progress inside ONE case (cases take micro- to milliseconds)
        t0 = time.time()
        dev, dev_out, dev_err = run_worker(bins["dev"], "dev", cases_path, cases, workdir, stall)
        rel, rel_out, rel_err = run_worker(bins["rel"], "rel", cases_path, cases, workdir, stall)
        events = merge_builds(dev, rel)
        log("%d events (%d dev, %d rel) in %.1fs; worker stdout %d+%d, stderr %d+%d octets"
            % (len(events), len(dev), len(rel), time.time() - t0, dev_out, rel_out, dev_err, rel_err))

        # ---- trace validation (events of cases whose process died have no spec action)
        live = [e for e in events if "died" not in e]
        dead = [e for e in events if "died" in e]
        t0 = time.time()
        fails, tv_states, n_shards = validate(live, workdir, max(1, NCPU - 2))
        log("validated %d events in %d shard(s), %.1fs; %d rejected" % (len(live), n_shards, time.time() - t0, len(fails)))
        canonical_lines = 0
        if plan.get("canonical"):
            t0 = time.time()
            rej, canonical_lines = validate_canonical(live, workdir, max(1, NCPU - 2))
            by_idx = dict(fails)
            for i in rej:
                by_idx.setdefault(i, [])
                by_idx[i] = list(by_idx[i]) + ["trace-rejected"]
            fails = sorted(by_idx.items())
            log("canonical trace validation (Reader / Writer machine actions): %d lines consumed, %d case(s) rejected, %.1fs"
                % (canonical_lines, len(rej), time.time() - t0))

        # ---- attribution
        harness_broken = []
        mine = []
        for i, tags in fails:
            ev = live[i]
            hb = [t for t in tags if t.startswith("harness") or t == "unknown-event"]
            if hb:
                harness_broken.append((ev, tags))
                continue
            tg = [t for t in tags if owns(prop, ev, t)]
            if tg:
                mine.append((ev, tg))
        for ev in dead:
            tag = "outcome-" + ev["died"]
            if owns(prop, ev, tag):
                mine.append((ev, [tag]))
        if harness_broken:
            ev, tags = harness_broken[0]
            raise ToolError("harness inconsistency %s on event %s" % (tags, json.dumps(shorten(ev, 1500))))

        opens = load_known(prop)
        known_hits = {}
        violations = []
        for ev, tags in mine:
            hit = None
            for match, what in opens:
                if matches_known(match, ev, tags):
                    hit = what
                    break
            if hit:
                known_hits[hit] = known_hits.get(hit, 0) + 1
            else:
                violations.append((ev, tags))

        vdir = os.path.join(WORK, "violations")
        os.makedirs(vdir, exist_ok=True)
        printed = 0
        for ev, tags in violations:
            case = cases[ev["idx"]] if ev.get("idx") is not None and ev["idx"] < len(cases) else None
            blob = {"property": prop, "tags": tags, "case": case, "event": ev, "tier": tier, "seed": seed}
            h = hashlib.sha1(json.dumps(blob, sort_keys=True).encode()).hexdigest()[:12]
            path = os.path.join(vdir, "%s-%s.json" % (prop, h))
            if printed < 25:
                with open(path, "w") as f:
                    json.dump(blob, f, indent=1)
                print("VIOLATION property=%s replay=%s tags=%s build=%s" % (prop, path, ",".join(tags), ev.get("build")))
                printed += 1
        if len(violations) > printed:
            print("(%d further violating events not listed)" % (len(violations) - printed))
        for what, n in known_hits.items():
            print("KNOWN-FINDING: property=%s %s (%d events)" % (prop, what, n))

        if replay:
            for ev in events:
                print("replayed:", json.dumps(shorten(ev, 3000)))
            print("result: %s" % ("VIOLATION reproduced" if violations else "no violation"))
            return 1 if violations else 0

        # ---- evidence
        states = sum(r["distinct"] for r in mc.values()) + tv_states
        transitions = sum(r["generated"] for r in mc.values()) + len(live)
        kinds = {}
        for e in events:
            kinds[e.get("e")] = kinds.get(e.get("e"), 0) + 1
        distinct = len({json.dumps({k: v for k, v in c.items() if k not in ("id", "src")}, sort_keys=True) for c in cases})
        samples = []
        seen_src = set()
        for e in live:
            src = cases[e["idx"]].get("src", "?") if e["idx"] < len(cases) else "?"
            if src not in seen_src and len(samples) < 6:
                seen_src.add(src)
                samples.append(shorten(e, 900))
        evidence = {
            "property_id": prop, "tier": tier, "seed": seed, "level": "model_checking",
            "coverage": {
                "states": states, "transitions": transitions,
                "traces_validated_against_impl": len(live),
                "samples": samples,
                "evaluations": len(cases), "distinct_nontrivial": distinct,
                "rule": plan.get("rule", "") + " -- and the systematic suites listed in generator_suites (DESIGN.md section 4.1); "
                        "distinct = distinct (operation, input) cases",
                "generator_suites": list(plan.get("gen", [])),
                "cases_by_source": {k: sum(1 for c in cases if c.get("src") == k) for k in sorted({c.get("src", "?") for c in cases})},
                "models": {n: {"distinct_states": r["distinct"], "states_generated": r["generated"],
                               "behaviours_exported": len(r["replay"]), "steps_by_pc": r["coverage"], "wall_s": r["wall_s"]}
                           for n, r in mc.items()},
                "events_by_kind": kinds,
                "events_rejected_by_spec": len(fails),
                "canonical_trace_lines_consumed": canonical_lines,
                "events_contradicting_this_property": len(mine),
                "process_deaths": len(dead),
                "worker_stdout_octets": dev_out + rel_out, "worker_stderr_octets": dev_err + rel_err,
                "builds": ["dev (overflow checks, debug assertions)", "release"],
                "exhaustive": bool(plan.get("exhaustive", False) or (tier == "thorough" and plan.get("exhaustive_thorough", False))),
            },
            "assumptions": plan.get("assumptions", []),
            "wall_s": round(time.time() - t_start, 1),
            "violations": len(violations),
        }
        evdir = os.path.join(VERIF, "evidence") if not os.environ.get("RLV_REPO") else os.path.join(workdir, "evidence")
        os.makedirs(evdir, exist_ok=True)
        with open(os.path.join(evdir, prop + ".json"), "w") as f:
            json.dump(evidence, f, indent=1)
        log("done in %.1fs: %d violation(s), %d known" % (time.time() - t_start, len(violations), sum(known_hits.values())))
        return 1 if violations else 0
    except ToolError as e:
        print("TOOL-ERROR property=%s %s" % (prop, e))
        return 2
    finally:
        # the run's own directory (cases, events, TLC metadirs: gigabytes in the thorough tier) goes away unless
        # --keep was given; replay files of violations live in work/violations
        if not keep and not replay:
            shutil.rmtree(workdir, ignore_errors=True)


