//! More case generators (encoder side, hiding, enumerations, cursors, faults, options).
use crate::gen::*;
use crate::util::*;
use serde_json::{json, Value};

pub struct Out {
    pub n: u64,
}
impl Out {
    pub fn emit(&mut self, mut c: Value) {
        c.as_object_mut().unwrap().insert("id".into(), json!(self.n));
        self.n += 1;
        println!("{c}");
    }
}

fn counts(tier: &str, quick: u64, thorough: u64) -> u64 {
    if tier == "thorough" {
        thorough
    } else {
        quick
    }
}

fn host(n: usize, rng: &mut Rng) -> Value {
    json!({"k": "HostName", "f": [bytes_json(&rng.bytes(n))]})
}

/// a control message (value) whose encoding is exactly `total` octets (total >= 12 + 8, built from
/// maximum-size Host Name AVPs and one filler)
fn control_of_size(total: usize, rng: &mut Rng) -> Value {
    let mut avps = vec![gen_message_type(rng)];
    let mut left = total - 12 - 8;
    while left > 1023 + 7 {
        avps.push(host(1017, rng));
        left -= 1023;
    }
    // left in 7..=1030: one or two AVPs, each 7..=1023 octets
    if left > 1023 {
        avps.push(host(500, rng));
        left -= 506;
    }
    if left >= 7 {
        avps.push(host(left - 6, rng));
    } else if left > 0 {
        // cannot place 1..6 octets; shrink the previous AVP instead (not reached for the sizes used)
    }
    json!({"k": "Control", "length": 0, "tunnel_id": 1, "session_id": 2, "ns": 3, "nr": 4, "avps": avps})
}

/// values outside the round-trip domain too: empty variable parts, arbitrary data length/offset fields
fn gen_any_value(rng: &mut Rng) -> (&'static str, Value) {
    match rng.below(10) {
        0..=3 => ("avp", gen_avp(rng, 60)),
        4 => {
            // empty / odd variable parts
            let k = *rng.pick(&["HostName", "VendorName", "Challenge", "CalledNumber", "PrivateGroupId"]);
            ("avp", json!({"k": k, "f": [[]]}))
        }
        5 => ("avp", json!({"k": "Q931CauseCode", "f": [rng.u16(), rng.u8(), [[]]]})),
        6 | 7 => {
            let n = rng.range(0, 6) as usize;
            let mut m = gen_control(rng, n, 40);
            if rng.chance(1, 5) {
                // first AVP not a Message Type: still encodable
                let a = gen_avp(rng, 10);
                m["avps"].as_array_mut().unwrap().insert(0, a);
            }
            ("msg", m)
        }
        _ => {
            let mut d = gen_data(rng, 60);
            if rng.chance(1, 3) {
                d["length"] = json!([rng.u16()]);
            }
            if rng.chance(1, 3) {
                d["offset"] = json!([rng.u16()]);
            }
            if rng.chance(1, 6) {
                d["data"] = json!([]);
            }
            ("msg", d)
        }
    }
}

pub fn suite_encode(out: &mut Out, tier: &str, rng: &mut Rng) {
    // size boundaries of the 10-bit AVP length and the 16-bit message length (C07)
    for n in [1015usize, 1016, 1017, 1018, 1019, 2000, 70000] {
        if n == 70000 && tier != "thorough" {
            continue;
        }
        for (i, k) in ["HostName", "VendorName", "Hidden"].iter().enumerate() {
            let v = match i {
                0 => host(n, rng),
                1 => json!({"k": k, "f": [bytes_json(&gen_utf8(rng, n))]}),
                _ => json!({"k": "Hidden", "f": [7, bytes_json(&rng.bytes(n))]}),
            };
            out.emit(json!({"op": "encode", "kind": "avp", "v": v, "prefix": [], "wr": if i == 0 { "mon" } else { "vec" }}));
            // inside a message: the whole encode must fail loudly too
            let m = json!({"k": "Control", "length": 0, "tunnel_id": 1, "session_id": 2, "ns": 3, "nr": 4,
                           "avps": [gen_message_type(rng), v]});
            if i == 0 {
                out.emit(json!({"op": "encode", "kind": "msg", "v": m, "prefix": [9, 9], "wr": "vec"}));
            }
        }
    }
    // a VecWriter that REALLY holds 64 MiB + 1 (thorough: also 100 MiB) octets, capacity exactly full
    for n in [64usize * 1024 * 1024 + 1, 100 * 1024 * 1024] {
        if n > 70_000_000 && tier != "thorough" {
            continue;
        }
        for (kind, v) in [("avp", gen_avp(rng, 20)), ("msg", gen_control(rng, 3, 12)), ("msg", gen_data(rng, 30))] {
            out.emit(json!({"op": "encode", "kind": kind, "v": v, "prefix": [], "wr": "vec", "prefix_fill": {"len": n, "byte": 0xa5}}));
        }
    }
    // writer positions at and beyond 2^31 / 2^32 (a Writer that behaves as if it already held that much):
    // positions kept in 32 bits, or with a bit borrowed for a flag, go wrong here
    for k in [16u32, 24, 30, 31, 32, 33, 40, 47, 62] {
        for add in [-1i64, 0, 100] {
            let (kind, v) = match (k as i64 + add).rem_euclid(3) {
                0 => ("avp", gen_avp(rng, 20)),
                1 => ("avp", gen_hidden(rng, 33)),
                _ => ("msg", gen_control(rng, 3, 12)),
            };
            out.emit(json!({"op": "encode", "kind": kind, "v": v, "prefix": [], "wr": "sparse", "vbase_log2": k, "vbase_add": add}));
        }
    }
    // every AVP kind (and a control / data message) behind prefixes of every length 0..=17 (all alignments mod 16)
    // whose CONTENT is zeros, ones, random, or looks like what is being written (the value's own encoding, an AVP
    // header, a message header)
    for ki in 0..=KINDS.len() + 1 {
        for plen in 0..=17usize {
            if tier != "thorough" && plen != 0 && (ki + plen) % 3 != 0 {
                continue;
            }
            let (kind, v) = if ki < KINDS.len() { ("avp", gen_avp_kind(rng, ki, 9)) } else if ki == KINDS.len() { ("msg", gen_control(rng, 3, 8)) } else { ("msg", gen_data(rng, 12)) };
            let own: Vec<u8> = if kind == "avp" { enc_avp(&v) } else if v["k"] == "Control" { enc_control(&v) } else { vec![0x00, 0x02, 0, 1, 0, 2] };
            let prefix: Vec<u8> = match (ki + plen) % 5 {
                0 => vec![0u8; plen],
                1 => vec![0xffu8; plen],
                2 => own.iter().cycle().take(plen).copied().collect(),
                3 => [0x13u8, 0x20, 0x00, 0x0c, 0, 0, 0, 0, 0, 0, 0, 0, 0x80, 0x08, 0, 0, 0, 0].iter().take(plen).copied().collect(),
                _ => rng.bytes(plen),
            };
            out.emit(json!({"op": "encode", "kind": kind, "v": v, "prefix": bytes_json(&prefix), "wr": if (ki + plen) % 2 == 0 { "vec" } else { "mon" }}));
            if plen == 0 {
                // the writer already ends with exactly this value's own encoding (once, twice, and all but its last octet)
                let twice: Vec<u8> = own.iter().chain(own.iter()).copied().collect();
                for pre in [own.clone(), twice, own[..own.len() - 1].to_vec()] {
                    out.emit(json!({"op": "encode", "kind": kind, "v": v, "prefix": bytes_json(&pre), "wr": "vec"}));
                }
            }
        }
    }
    // sizes around 2^16 and 2^17: a length computed or compared in 16 bits would wrap here
    let wraps: &[usize] = if tier == "thorough" {
        &[65529, 65530, 65531, 65535, 65536, 65600, 66553, 66554, 131066, 131100]
    } else {
        &[65530, 65600, 66553]
    };
    for (i, &n) in wraps.iter().enumerate() {
        let v = match i % 3 {
            0 => host(n, rng),
            1 => json!({"k": "Hidden", "f": [9, bytes_json(&rng.bytes(n))]}),
            _ => json!({"k": "VendorName", "f": [bytes_json(&gen_utf8(rng, n))]}),
        };
        out.emit(json!({"op": "encode", "kind": "avp", "v": v, "prefix": if i % 2 == 0 { json!([]) } else { json!([1, 2, 3]) }, "wr": "vec"}));
    }
    // result code with a long message, q931 with long advisory: 2+2+n, 3+n
    for n in [1012usize, 1013, 1014, 1015] {
        let v = json!({"k": "ResultCode", "f": [1, ["Generic"], [bytes_json(&gen_utf8(rng, n))]]});
        out.emit(json!({"op": "encode", "kind": "avp", "v": v, "prefix": [], "wr": "vec"}));
        let v = json!({"k": "Q931CauseCode", "f": [1, 2, [bytes_json(&gen_utf8(rng, n))]]});
        out.emit(json!({"op": "encode", "kind": "avp", "v": v, "prefix": [], "wr": "mon"}));
    }
    for total in [65534usize, 65535, 65536, 65537] {
        if total == 65537 && tier != "thorough" {
            continue;
        }
        let m = control_of_size(total, rng);
        out.emit(json!({"op": "encode", "kind": "msg", "v": m, "prefix": [], "wr": "vec"}));
    }
    // every kind (optional parts present, texts of some length) at writer positions around and beyond the
    // 10-bit limit: what is appended must not depend on where the value lands
    for ki in 0..KINDS.len() {
        for np in [1000usize, 1015, 1023, 1024, 2000] {
            if tier != "thorough" && (ki + np) % 2 == 1 {
                continue;
            }
            let mut a = gen_avp_kind(rng, ki, 40);
            if KINDS[ki].1 == "ResultCode" {
                a = json!({"k": "ResultCode", "f": [rng.u16(), ["Generic"], [bytes_json(&gen_utf8(rng, 36))]]});
            } else if KINDS[ki].1 == "Q931CauseCode" {
                a = json!({"k": "Q931CauseCode", "f": [rng.u16(), rng.u8(), [bytes_json(&gen_utf8(rng, 30))]]});
            }
            let prefix = rng.bytes(np);
            out.emit(json!({"op": "encode", "kind": "avp", "v": a, "prefix": bytes_json(&prefix), "wr": if ki % 2 == 0 { "vec" } else { "mon" }}));
        }
    }
    // the same inside one message: a long first AVP pushes every later AVP beyond offset 1023
    {
        let mut avps = vec![gen_message_type(rng), host(1017, rng)];
        for ki in 1..KINDS.len() {
            avps.push(gen_avp_kind(rng, ki, 30));
        }
        avps.push(json!({"k": "ResultCode", "f": [2, ["Generic"], [bytes_json(&gen_utf8(rng, 36))]]}));
        let m = json!({"k": "Control", "length": 0, "tunnel_id": 1, "session_id": 2, "ns": 3, "nr": 4, "avps": avps});
        out.emit(json!({"op": "encode", "kind": "msg", "v": m, "prefix": [], "wr": "mon"}));
        out.emit(json!({"op": "roundtrip", "kind": "msg", "v": m}));
    }
    // writers that already hold about 64 KiB / 128 KiB: absolute positions pass 2^16 while the value is small
    let big_prefixes: &[usize] = if tier == "thorough" { &[65500, 65523, 65524, 65530, 65535, 65536, 70000, 131060, 131072] } else { &[65524, 65530, 70000] };
    for (i, &np) in big_prefixes.iter().enumerate() {
        let prefix = rng.bytes(np);
        let (kind, v) = match i % 3 {
            0 => ("msg", gen_control(rng, 2, 10)),
            1 => ("avp", gen_avp(rng, 20)),
            _ => ("msg", gen_data(rng, 10)),
        };
        out.emit(json!({"op": "encode", "kind": kind, "v": v, "prefix": bytes_json(&prefix), "wr": if i % 2 == 0 { "vec" } else { "mon" }}));
    }
    // one writer receiving enough messages to pass 64 KiB
    {
        let k = if tier == "thorough" { 160 } else { 75 };
        let items: Vec<Value> = (0..k)
            .map(|_| {
                let m = json!({"k": "Control", "length": 0, "tunnel_id": rng.u16(), "session_id": 1, "ns": 2, "nr": 3,
                               "avps": [gen_message_type(rng), host(900, rng)]});
                json!({"kind": "msg", "v": m})
            })
            .collect();
        out.emit(json!({"op": "encode_seq", "items": items}));
    }
    let n = counts(tier, 900, 40000);
    for i in 0..n {
        let (kind, v) = gen_any_value(rng);
        let prefix = if rng.bool() { vec![] } else { rng.rbytes(1, 300) };
        out.emit(json!({"op": "encode", "kind": kind, "v": v, "prefix": bytes_json(&prefix),
                        "wr": if i % 2 == 0 { "vec" } else { "mon" }}));
    }
}

pub fn suite_encode_seq(out: &mut Out, tier: &str, rng: &mut Rng) {
    let n = counts(tier, 150, 5000);
    for _ in 0..n {
        let k = rng.range(1, 5);
        let items: Vec<Value> = (0..k)
            .map(|_| {
                let (kind, v) = gen_any_value(rng);
                json!({"kind": kind, "v": v})
            })
            .collect();
        out.emit(json!({"op": "encode_seq", "items": items}));
    }
}

/// C04's product: ids x Ns/Nr x priority x length x offset x |data|
pub fn data_product(rng: &mut Rng) -> Vec<Value> {
    let mut v = Vec::new();
    for id in [0u16, 1, 0xffff] {
        for nsnr in [None, Some((0u16, 0u16)), Some((0xffff, 1))] {
            for prio in [false, true] {
                for has_len in [false, true] {
                    for nd in [1usize, 2, 17] {
                        for off in [None, Some(0usize), Some(1), Some(nd - 1)] {
                            if let Some(o) = off {
                                if o > nd - 1 {
                                    continue;
                                }
                            }
                            let total = 2 + if has_len { 2 } else { 0 } + 4 + if nsnr.is_some() { 4 } else { 0 }
                                + if off.is_some() { 2 } else { 0 }
                                + nd;
                            v.push(json!({"k": "Data", "prio": prio,
                                "length": if has_len { json!([total]) } else { json!([]) },
                                "tunnel_id": id, "session_id": id ^ 0x00ff,
                                "ns_nr": opt_json(nsnr.map(|(a, b)| json!([a, b]))),
                                "offset": opt_json(off.map(|o| json!(o))),
                                "data": bytes_json(&rng.bytes(nd))}));
                        }
                    }
                }
            }
        }
    }
    v
}

pub fn suite_roundtrip_data(out: &mut Out, tier: &str, rng: &mut Rng) {
    for d in data_product(rng) {
        out.emit(json!({"op": "roundtrip", "kind": "msg", "v": d}));
    }
    let n = counts(tier, 600, 30000);
    for _ in 0..n {
        let maxd = if rng.chance(1, 50) { 60000 } else { 120 };
        let d = gen_data(rng, maxd);
        out.emit(json!({"op": "roundtrip", "kind": "msg", "v": d}));
    }
}

pub fn suite_roundtrip_ctl(out: &mut Out, tier: &str, rng: &mut Rng) {
    // every kind several times, boundary sizes of the variable parts
    for ki in 0..KINDS.len() {
        for maxvar in [1usize, 2, 255, 256, 257, 1011, 1016, 1017] {
            let a = gen_avp_kind(rng, ki, maxvar);
            out.emit(json!({"op": "roundtrip", "kind": "avp", "v": a}));
        }
    }
    for _ in 0..counts(tier, 40, 2000) {
        out.emit(json!({"op": "roundtrip", "kind": "avp", "v": gen_hidden(rng, 1017)}));
    }
    let n = counts(tier, 500, 30000);
    for _ in 0..n {
        let k = rng.range(0, 12) as usize;
        let m = gen_control(rng, k, 50);
        out.emit(json!({"op": "roundtrip", "kind": "msg", "v": m}));
    }
    for total in [65534usize, 65535] {
        out.emit(json!({"op": "roundtrip", "kind": "msg", "v": control_of_size(total, rng)}));
    }
}

/// accepted-but-non-canonical inputs for C10
fn noncanonical_input(rng: &mut Rng) -> (Vec<u8>, Value) {
    let lax = json!([false, false, false]);
    match rng.below(8) {
        0 => {
            // reserved header bits / P / O / version on a control message, lax options
            let m = gen_control(rng, 4, 30);
            let mut b = enc_control(&m);
            let extra: u16 = *rng.pick(&[1u16, 2, 4, 8, 1 << 10, 1 << 11, 1 << 13, 1 << 14, 1 << 15, 0x30, 0xd0]);
            let w = u16::from_be_bytes([b[0], b[1]]) ^ extra;
            b[0..2].copy_from_slice(&w.to_be_bytes());
            (b, lax)
        }
        1 => {
            // M clear, reserved AVP bits set, surplus payload, trailing octets in the AVP region
            let mut body = enc_avp(&gen_message_type(rng));
            for _ in 0..rng.range(0, 4) {
                let a = gen_avp(rng, 20);
                let mut p = enc_payload(&a);
                let fixed = kind_by_name(a["k"].as_str().unwrap_or(""))
                    .map(|k| !k.2.iter().any(|o| matches!(o, Op::Rest | Op::Utf8 | Op::OptUtf8 | Op::OptErr)))
                    .unwrap_or(false);
                if fixed && rng.bool() {
                    p.extend(rng.rbytes(1, 3));
                }
                let h = if a["k"] == "Hidden" { 2 } else { 0 };
                body.extend(enc_record((rng.u8() & 0x3c) | h | (rng.u8() & 1), 6 + p.len(), 0, avp_type(&a), &p));
            }
            body.extend(rng.rbytes(0, 5));
            let b = enc_control_raw(flag_word(true, true, true, false, false, 2), None, [rng.u16(), rng.u16(), rng.u16(), rng.u16()], &body);
            (b, gen_opts(rng))
        }
        2 => {
            // data message, no offset field, reserved bits / version under lax options
            let mut d = gen_data(rng, 40);
            d["offset"] = json!([]);
            let n = json_bytes(&d["data"]).unwrap().len();
            let has_len = !d["length"].as_array().unwrap().is_empty();
            let hdr = 2 + if has_len { 2 } else { 0 } + 4 + if d["ns_nr"].as_array().unwrap().is_empty() { 0 } else { 4 };
            if has_len {
                d["length"] = json!([hdr + n]);
            }
            let mut b = enc_data_from_value(&d, rng);
            if rng.bool() {
                let extra: u16 = *rng.pick(&[1u16, 8, 1 << 10, 1 << 13, 0x10, 0xf0]);
                let w = u16::from_be_bytes([b[0], b[1]]) ^ extra;
                b[0..2].copy_from_slice(&w.to_be_bytes());
                (b, lax)
            } else {
                if has_len {
                    b.extend(rng.rbytes(0, 9)); // octets beyond the declared end
                }
                (b, gen_opts(rng))
            }
        }
        3 => {
            // control message followed by octets beyond its declared length
            let m = gen_control(rng, 3, 20);
            let mut b = enc_control(&m);
            b.extend(rng.rbytes(1, 20));
            (b, gen_opts(rng))
        }
        4 => {
            // result code with the odd third octet, sequencing required with payload
            let mut body = enc_avp(&gen_message_type(rng));
            body.extend(enc_record(1, 9, 0, 1, &[0, 1, 7]));
            let junk = rng.rbytes(0, 5);
            body.extend(enc_record(1, 6 + junk.len(), 0, 39, &junk));
            (enc_control_raw(flag_word(true, true, true, false, false, 2), None, [1, 2, 3, 4], &body), gen_opts(rng))
        }
        _ => {
            let m = gen_control(rng, 5, 40);
            (enc_control(&m), gen_opts(rng))
        }
    }
}

pub fn suite_chain(out: &mut Out, tier: &str, rng: &mut Rng) {
    let n = counts(tier, 1200, 50000);
    for _ in 0..n {
        let (b, opts) = noncanonical_input(rng);
        let b = if rng.chance(1, 10) { mutate(rng, &b, &[]) } else { b };
        out.emit(json!({"op": "chain", "in": bytes_json(&b), "opts": opts}));
    }
}

fn secret_of(rng: &mut Rng) -> Vec<u8> {
    match rng.below(5) {
        0 => vec![],
        1 => rng.bytes(1),
        2 => rng.bytes(15),
        3 => rng.bytes(64),
        _ => rng.rbytes(1, 40),
    }
}

/// (value, lp) such that the plaintext 2+|payload|+|lp| needs exactly `blocks` blocks
fn avp_for_blocks(rng: &mut Rng, blocks: usize, exact_multiple: bool) -> (Value, Vec<u8>) {
    let ki = rng.below(KINDS.len() as u64) as usize;
    let a = gen_avp_kind(rng, ki, 12);
    let plen = enc_payload(&a).len();
    let target = if exact_multiple { blocks * 16 } else { (blocks - 1) * 16 + rng.range(1, 15) as usize };
    let lp = if target > 2 + plen { rng.bytes(target - 2 - plen) } else { vec![] };
    (a, lp)
}

pub fn suite_hide(out: &mut Out, tier: &str, rng: &mut Rng) {
    let all_blocks: Vec<usize> = (1..=64).collect();
    let block_counts: &[usize] = if tier == "thorough" { &all_blocks } else { &[1, 2, 3, 4, 8] };
    for &b in block_counts {
        for rep in 0..counts(tier, 3, 6) {
            let (a, lp) = avp_for_blocks(rng, b, rep % 2 == 0);
            out.emit(json!({"op": "hide", "v": a, "secret": bytes_json(&secret_of(rng)), "rv": bytes_json(&rng.bytes(4)),
                            "lp": bytes_json(&lp), "ap": bytes_json(&rng.bytes(16))}));
        }
    }
    // every secret length 0..72 (and around 2 x 64) on a two-block value: the MD5 pre-images
    // (6 + |secret| and 16 + |secret| octets) cross MD5's 55/56 and 64-octet boundaries on the way
    let mut slens: Vec<usize> = (0..=260).collect();
    // ... and around every power of two up to 1024 (thorough: 4096): buffers sized from an estimate overflow there
    for n in [512usize, 1024, 2048, 4096] {
        if n > 1024 && tier != "thorough" {
            continue;
        }
        slens.extend(n - 24..=n + 8);
    }
    for (i, sl) in slens.iter().enumerate() {
        let (a, lp) = avp_for_blocks(rng, 2, false);
        let secret = rng.bytes(*sl);
        out.emit(json!({"op": if i % 2 == 0 { "hide" } else { "hide_reveal" }, "v": a, "secret": bytes_json(&secret),
                        "rv": bytes_json(&rng.bytes(4)), "lp": bytes_json(&lp), "ap": bytes_json(&rng.bytes(16))}));
    }
    // runs of calls in which everything is held fixed except one argument (a result must depend on every
    // argument, and on nothing else -- in particular not on the previous call)
    for _ in 0..counts(tier, 3, 20) {
        let ki = rng.below(KINDS.len() as u64) as usize;
        let a = gen_avp_kind(rng, ki, 10);
        let rv = rng.bytes(4);
        let sl = rng.range(1, 20) as usize;
        let lp = rng.rbytes(0, 18);
        let ap = rng.bytes(16);
        for step in 0..6 {
            let secret = rng.bytes(sl); // same length, different content
            let (rv2, lp2) = if step % 3 == 2 { (rng.bytes(4), lp.clone()) } else { (rv.clone(), lp.clone()) };
            let oki = rng.below(KINDS.len() as u64) as usize;
            let other = gen_avp_kind(rng, oki, 8);
            out.emit(json!({"op": if step % 2 == 0 { "hide" } else { "hide_reveal" }, "v": a, "secret": bytes_json(&secret),
                            "rv": bytes_json(&rv2), "lp": bytes_json(&lp2), "ap": bytes_json(&ap),
                            "between": {"v": other, "secret": bytes_json(&rng.rbytes(0, 30)), "rv": bytes_json(&rng.bytes(4))}}));
        }
        // same secret, different values of the same kind
        let secret = rng.bytes(sl);
        for _ in 0..3 {
            let a2 = gen_avp_kind(rng, ki, 10);
            out.emit(json!({"op": "hide_reveal", "v": a2, "secret": bytes_json(&secret), "rv": bytes_json(&rv), "lp": bytes_json(&lp), "ap": bytes_json(&ap)}));
        }
    }
    // every kind x length padding 0..=16 (quick: six of them); values made of repeated, all-zero or secret-equal
    // blocks; random vectors related to the secret
    for ki in 0..KINDS.len() {
        for lpn in 0..=16usize {
            if tier != "thorough" && ![0usize, 1, 13, 14, 15, 16].contains(&lpn) {
                continue;
            }
            let a = gen_avp_kind(rng, ki, 14);
            out.emit(json!({"op": "hide_reveal", "v": a, "secret": bytes_json(&secret_of(rng)), "rv": bytes_json(&rng.bytes(4)),
                            "lp": bytes_json(&rng.bytes(lpn)), "ap": bytes_json(&rng.bytes(16))}));
        }
    }
    for pat in 0..12usize {
        let secret = rng.rbytes(4, 20);
        let blk: Vec<u8> = match pat % 4 { 0 => vec![0u8; 16], 1 => vec![0xffu8; 16], 2 => secret.iter().cycle().take(16).copied().collect(), _ => rng.bytes(16) };
        let nblk = 1 + pat % 4;
        let mut val: Vec<u8> = Vec::new();
        for _ in 0..nblk {
            val.extend_from_slice(&blk);
        }
        val.truncate(16 * nblk - 2);          // with the 2-octet length subfield: exactly nblk blocks
        let rv: Vec<u8> = match pat % 3 { 0 => secret[..4].to_vec(), 1 => vec![0u8; 4], _ => rng.bytes(4) };
        for k in ["HostName", "Challenge", "PrivateGroupId"] {
            out.emit(json!({"op": "hide_reveal", "v": {"k": k, "f": [bytes_json(&val)]}, "secret": bytes_json(&secret), "rv": bytes_json(&rv),
                            "lp": [], "ap": bytes_json(&blk)}));
        }
    }
    // cipher-state coincidences, crafted (the value octets are free): a cipher block that is all zero (the first
    // one needs a random vector searched so that the key's first two octets equal the length subfield), two equal
    // consecutive cipher blocks, a cipher block equal to the secret's first 16 octets
    for case in 0..counts(tier, 8, 60) {
        let nblk = 2 + (case % 3) as usize;
        let vlen = 16 * nblk - 2;
        let total = (6 + vlen) as u16;
        let secret = rng.rbytes(1, 24);
        let t = 7u16;
        // search the random vector
        let mut rv = rng.bytes(4);
        let zero_first = case % 4 == 0;
        if zero_first {
            let mut found = false;
            for i in 0..400000u32 {
                let cand = i.to_be_bytes();
                let k = md5_of(&[&t.to_be_bytes(), &secret, &cand]);
                if k[0] == (total >> 8) as u8 && k[1] == total as u8 {
                    rv = cand.to_vec();
                    found = true;
                    break;
                }
            }
            if !found {
                continue;
            }
        }
        let key1 = md5_of(&[&t.to_be_bytes(), &secret, &rv]);
        let mut plain: Vec<u8> = total.to_be_bytes().to_vec();
        if zero_first {
            plain.extend_from_slice(&key1[2..]);            // p1 = key1  =>  c1 = 0
        } else {
            plain.extend(rng.bytes(14));
        }
        let mut prev: Vec<u8> = plain[..16].iter().zip(key1.iter()).map(|(a, b)| a ^ b).collect();
        for b in 1..nblk {
            let key = md5_of(&[&secret, &prev]);
            let target: Vec<u8> = match (case + b as u64) % 3 {
                0 => vec![0u8; 16],                                   // this cipher block all zero
                1 => prev.clone(),                                    // equal to the previous cipher block
                _ => secret.iter().cycle().take(16).copied().collect(),
            };
            let p: Vec<u8> = target.iter().zip(key.iter()).map(|(a, b)| a ^ b).collect();
            plain.extend_from_slice(&p);
            prev = target;
        }
        let value = plain[2..].to_vec();
        out.emit(json!({"op": "hide_reveal", "v": {"k": "HostName", "f": [bytes_json(&value)]}, "secret": bytes_json(&secret), "rv": bytes_json(&rv),
                        "lp": [], "ap": bytes_json(&[0u8; 16])}));
        out.emit(json!({"op": "hide", "v": {"k": "HostName", "f": [bytes_json(&value)]}, "secret": bytes_json(&secret), "rv": bytes_json(&rv),
                        "lp": [], "ap": bytes_json(&[0u8; 16])}));
    }
    // every kind once, no length padding
    for ki in 0..KINDS.len() {
        if tier != "thorough" && ki % 3 != 0 {
            continue;
        }
        let a = gen_avp_kind(rng, ki, 20);
        out.emit(json!({"op": "hide", "v": a, "secret": bytes_json(&secret_of(rng)), "rv": bytes_json(&rng.bytes(4)),
                        "lp": [], "ap": bytes_json(&rng.bytes(16))}));
    }
    // already hidden: unchanged; oversize original: refused
    out.emit(json!({"op": "hide", "v": gen_hidden(rng, 40), "secret": [1], "rv": [1, 2, 3, 4], "lp": [], "ap": bytes_json(&[0u8; 16])}));
    out.emit(json!({"op": "hide", "v": host(1017, rng), "secret": [1], "rv": [1, 2, 3, 4], "lp": [], "ap": bytes_json(&[0u8; 16])}));
    out.emit(json!({"op": "hide", "v": host(1018, rng), "secret": [1], "rv": [1, 2, 3, 4], "lp": [], "ap": bytes_json(&[0u8; 16])}));
}

fn md5_of(parts: &[&[u8]]) -> [u8; 16] {
    let mut buf = Vec::new();
    for p in parts {
        buf.extend_from_slice(p);
    }
    md5::compute(&buf).0
}

/// craft a hidden value whose decryption is exactly `plain` (|plain| a positive multiple of 16)
pub fn craft_hidden(t: u16, plain: &[u8], secret: &[u8], rv: &[u8]) -> Vec<u8> {
    let mut out = Vec::new();
    let mut prev: Vec<u8> = Vec::new();
    for (i, blk) in plain.chunks(16).enumerate() {
        let key = if i == 0 { md5_of(&[&t.to_be_bytes(), secret, rv]) } else { md5_of(&[secret, &prev]) };
        let c: Vec<u8> = blk.iter().zip(key.iter()).map(|(a, b)| a ^ b).collect();
        out.extend_from_slice(&c);
        prev = c;
    }
    out
}

pub fn suite_reveal(out: &mut Out, tier: &str, rng: &mut Rng) {
    let types: Vec<u16> = vec![0, 1, 5, 7, 8, 12, 13, 20, 29, 34, 39, 40, 0xffff];
    // (b) crafted: decrypted original-length field at every boundary against the value size
    for nblk in [1usize, 2, 3] {
        let avail = nblk * 16 - 2; // payload octets available
        let fit = avail + 6;
        let mut lens: Vec<u32> = vec![0, 1, 2, 3, 4, 5, 6, 7, 8, fit as u32 - 2, fit as u32 - 1, fit as u32, fit as u32 + 1, fit as u32 + 2,
                                      fit as u32 + 3, fit as u32 + 15, fit as u32 + 16, 1022, 1023, 1024, 65535];
        lens.dedup();
        for l in lens {
            for (ti, &t) in types.iter().enumerate() {
                if tier != "thorough" && (ti + l as usize + nblk) % 3 != 0 {
                    continue;
                }
                let secret = secret_of(rng);
                let rv = rng.bytes(4);
                let mut plain = (l as u16).to_be_bytes().to_vec();
                // plausible payload for the type so that accepted lengths decode
                let mut body = vec![0u8, 1, 0, 1];
                body.extend(std::iter::repeat(65u8).take(nblk * 16));
                plain.extend_from_slice(&body[..nblk * 16 - 2]);
                let value = craft_hidden(t, &plain, &secret, &rv);
                out.emit(json!({"op": "reveal", "v": {"k": "Hidden", "f": [t, bytes_json(&value)]},
                                "secret": bytes_json(&secret), "rv": bytes_json(&rv), "crafted_len": l}));
            }
        }
    }
    // every decrypted length that selects a payload of 0..30 octets, for every type class: the per-type
    // readers behind reveal() see every short / exact / long payload
    {
        let nblk = 2usize;
        for l in 6u32..=36 {
            for &t in types.iter() {
                if tier != "thorough" && (t as u32 + l) % 2 == 1 && t != 1 && t != 12 {
                    continue;
                }
                let secret = secret_of(rng);
                let rv = rng.bytes(4);
                let mut plain = (l as u16).to_be_bytes().to_vec();
                let mut body = vec![0u8, 1, 0, 1];
                body.extend(std::iter::repeat(65u8).take(nblk * 16));
                plain.extend_from_slice(&body[..nblk * 16 - 2]);
                let value = craft_hidden(t, &plain, &secret, &rv);
                out.emit(json!({"op": "reveal", "v": {"k": "Hidden", "f": [t, bytes_json(&value)]},
                                "secret": bytes_json(&secret), "rv": bytes_json(&rv), "crafted_len": l}));
            }
        }
    }
    // (a) arbitrary octets under arbitrary keys; (c) empty and misaligned values; (d) non-hidden
    let n = counts(tier, 150, 15000);
    for _ in 0..n {
        let t = *rng.pick(&types);
        let len = match rng.below(8) {
            0 => 0,
            1 => rng.range(1, 15) as usize,
            2 => 17,
            3 => 31,
            _ => 16 * rng.range(1, 3) as usize,
        };
        out.emit(json!({"op": "reveal", "v": {"k": "Hidden", "f": [t, bytes_json(&rng.bytes(len))]},
                        "secret": bytes_json(&secret_of(rng)), "rv": bytes_json(&rng.bytes(4))}));
    }
    for _ in 0..counts(tier, 10, 200) {
        out.emit(json!({"op": "reveal", "v": gen_avp(rng, 20), "secret": bytes_json(&secret_of(rng)), "rv": bytes_json(&rng.bytes(4))}));
    }
    // every secret length 0..=260 on values of one, two and three blocks (arbitrary octets and crafted valid ones)
    let mut rlens: Vec<usize> = (0..=260).collect();
    for n in [512usize, 1024, 2048, 4096] {
        if n > 1024 && tier != "thorough" {
            continue;
        }
        rlens.extend(n - 24..=n + 8);
    }
    for sl in rlens {
        let blocks = if sl > 260 { 2 } else { 1 + sl % 3 };
        let secret = rng.bytes(sl);
        let t = *rng.pick(&types);
        out.emit(json!({"op": "reveal", "v": {"k": "Hidden", "f": [t, bytes_json(&rng.bytes(16 * blocks))]}, "secret": bytes_json(&secret), "rv": bytes_json(&rng.bytes(4))}));
        let a = host(16 * blocks - 3, rng);
        let (ty, plain) = plain_for(&a);
        out.emit(json!({"op": "reveal", "t": ty, "plain": bytes_json(&plain), "secret": bytes_json(&secret), "rv": bytes_json(&rng.bytes(4))}));
    }
}

pub fn suite_hide_reveal(out: &mut Out, tier: &str, rng: &mut Rng) {
    // all 39 kinds
    for ki in 0..KINDS.len() {
        for rep in 0..counts(tier, 1, 16) {
            let a = gen_avp_kind(rng, ki, if rep == 0 { 12 } else { 60 });
            let lp = rng.rbytes(0, 20);
            out.emit(json!({"op": "hide_reveal", "v": a, "secret": bytes_json(&secret_of(rng)), "rv": bytes_json(&rng.bytes(4)),
                            "lp": bytes_json(&lp), "ap": bytes_json(&rng.bytes(16))}));
        }
    }
    // block counts, exact multiples of 16
    let block_counts: &[usize] = if tier == "thorough" { &[1, 2, 3, 4, 5, 8, 16, 32, 62, 63] } else { &[1, 2, 3, 6] };
    for &b in block_counts {
        for exact in [true, false] {
            let (a, lp) = avp_for_blocks(rng, b, exact);
            out.emit(json!({"op": "hide_reveal", "v": a, "secret": bytes_json(&secret_of(rng)), "rv": bytes_json(&rng.bytes(4)),
                            "lp": bytes_json(&lp), "ap": bytes_json(&rng.bytes(16))}));
        }
    }
    // long original values: the original-length subfield needs its high octet from 250 octets on
    for n in [249usize, 250, 251, 506, 1002] {
        if tier != "thorough" && n > 506 {
            continue;
        }
        let lp = rng.rbytes(0, 5);
        out.emit(json!({"op": "hide_reveal", "v": host(n, rng), "secret": bytes_json(&secret_of(rng)), "rv": bytes_json(&rng.bytes(4)),
                        "lp": bytes_json(&lp), "ap": bytes_json(&rng.bytes(16))}));
    }
    // original value lengths across the whole range (thorough: every one), and every length-padding size 0..=40
    let step = if tier == "thorough" { 1 } else { 37 };
    for n in (1usize..=1017).step_by(step) {
        out.emit(json!({"op": "hide_reveal", "v": host(n, rng), "secret": bytes_json(&secret_of(rng)), "rv": bytes_json(&rng.bytes(4)),
                        "lp": bytes_json(&rng.rbytes(0, 3)), "ap": bytes_json(&rng.bytes(16))}));
    }
    for lpn in 0usize..=40 {
        let ki = rng.below(KINDS.len() as u64) as usize;
        out.emit(json!({"op": "hide_reveal", "v": gen_avp_kind(rng, ki, 9), "secret": bytes_json(&secret_of(rng)), "rv": bytes_json(&rng.bytes(4)),
                        "lp": bytes_json(&rng.bytes(lpn)), "ap": bytes_json(&rng.bytes(16))}));
    }
    // hidden stays hidden
    out.emit(json!({"op": "hide_reveal", "v": gen_hidden(rng, 32), "secret": [7], "rv": [1, 2, 3, 4], "lp": [], "ap": bytes_json(&[0u8; 16])}));
}

pub fn suite_enum(out: &mut Out, _tier: &str, _rng: &mut Rng) {
    for f in ["MessageType", "ErrorType", "ProxyAuthenType", "StopCcn", "Cdn", "AttributeType"] {
        // the whole 16-bit space, in four events
        for (lo, hi) in [(0u32, 255u32), (256, 16383), (16384, 49151), (49152, 65535)] {
            out.emit(json!({"op": "enum_map", "field": f, "lo": lo, "hi": hi}));
        }
    }
    for f in ["MessageType", "ErrorType", "ProxyAuthenType", "StopCcn", "Cdn"] {
        out.emit(json!({"op": "enum_names", "field": f}));
    }
    // the same sweeps with the record's M bit clear / reserved bits set, and with surplus octets behind the code
    for (f, sur) in [("MessageType", vec![9u8]), ("ProxyAuthenType", vec![0, 0]), ("ErrorType", vec![b'a', b'b'])] {
        for (f6, surplus) in [(0u8, vec![]), (0x3d, vec![]), (1, sur.clone()), (0x3c, sur.clone())] {
            for (lo, hi) in [(0u32, 255u32), (256, 32767), (32768, 65535)] {
                out.emit(json!({"op": "enum_map", "field": f, "lo": lo, "hi": hi, "f6": f6, "surplus": bytes_json(&surplus)}));
            }
        }
    }
    for f6 in [0u8, 0x3d] {
        for (lo, hi) in [(0u32, 255u32), (256, 65535)] {
            out.emit(json!({"op": "enum_map", "field": "AttributeType", "lo": lo, "hi": hi, "f6": f6}));
        }
    }
    // the same sweeps inside a whole control message WITH the AVPs that typically accompany the swept one
    {
        let mk = |names: &[&str], rng: &mut Rng| -> (Vec<u8>, usize) {
            let mut b = Vec::new();
            for nme in names {
                let ki = KINDS.iter().position(|k| k.1 == *nme).unwrap();
                b.extend(enc_avp(&gen_avp_kind(rng, ki, 6)));
            }
            (b, names.len())
        };
        let plans: Vec<(&str, u16, Vec<&str>)> = vec![
            ("ProxyAuthenType", 12, vec!["ProxyAuthenName", "ProxyAuthenChallenge", "ProxyAuthenId", "ProxyAuthenResponse", "TxConnectSpeed", "FramingType"]),
            ("ErrorType", 4, vec!["AssignedTunnelId"]),
            ("ErrorType", 14, vec!["AssignedSessionId", "Q931CauseCode"]),
            ("MessageType", 0, vec!["ProtocolVersion", "HostName", "FramingCapabilities", "AssignedTunnelId", "AssignedSessionId", "ResultCode", "CallSerialNumber"]),
            ("AttributeType", 6, vec!["HostName", "RandomVector"]),
        ];
        for (f, ctx, names) in plans {
            let (after, n_after) = mk(&names, _rng);
            for (lo, hi) in [(0u32, 255u32), (256, 65535)] {
                out.emit(json!({"op": "enum_map", "field": f, "lo": lo, "hi": hi, "ctx": ctx, "after": bytes_json(&after), "n_after": n_after}));
            }
        }
    }
    // the attribute-type and message-type sweeps inside messages with other version nibbles and every check off
    for ver in [3u8, 0, 15] {
        for (f, ctx) in [("AttributeType", 6u16), ("MessageType", 0), ("ErrorType", 4), ("ProxyAuthenType", 12)] {
            if ver != 3 && f != "AttributeType" {
                continue;
            }
            for (lo, hi) in [(0u32, 255u32), (256, 65535)] {
                out.emit(json!({"op": "enum_map", "field": f, "lo": lo, "hi": hi, "ctx": ctx, "ver": ver}));
            }
        }
    }
    // the same sweeps with the AVP inside a whole control message (Message::try_read_validate): as the first AVP
    // (message types), behind the message types that carry it (Result Code in StopCCN / CDN, Proxy Authen Type
    // in ICCN), and every attribute type behind a Hello
    for (f, ctxs) in [("MessageType", vec![0u16]), ("ErrorType", vec![4, 14]), ("ProxyAuthenType", vec![12]), ("AttributeType", vec![6, 1])] {
        for ctx in ctxs {
            for (lo, hi) in [(0u32, 255u32), (256, 32767), (32768, 65535)] {
                out.emit(json!({"op": "enum_map", "field": f, "lo": lo, "hi": hi, "ctx": ctx}));
            }
        }
    }
    // many unassigned codes in ONE message (255, 256, 257 of them after a valid Message Type): still rejected
    for n in [255usize, 256, 257] {
        for field in 0..3 {
            let mut body = enc_avp(&json!({"k": "MessageType", "f": ["StopControlConnectionNotification"]}));
            for i in 0..n {
                let code = 17 + (i as u16 % 200);
                body.extend(match field {
                    0 => enc_record(1, 8, 0, 0, &code.to_be_bytes()),
                    1 => enc_record(1, 8, 0, 29, &(code + 6).to_be_bytes()),
                    _ => enc_record(1, 8, 0, 40 + code, &[0, 1]),
                });
            }
            let b = enc_control_raw(flag_word(true, true, true, false, false, 2), None, [1, 2, 3, 4], &body);
            out.emit(json!({"op": "decode", "in": bytes_json(&b), "opts": [true, true, true], "entry": "validate", "rdr": "slice", "enum_many": true}));
        }
    }
}

pub fn suite_bitmask(out: &mut Out, tier: &str, rng: &mut Rng) {
    for k in BITMASK_KINDS {
        let mut words: Vec<[u8; 4]> = Vec::new();
        for i in 0..32 {
            words.push((1u32 << i).to_be_bytes());
            words.push((!(1u32 << i)).to_be_bytes());
        }
        words.push([0; 4]);
        words.push([0xff; 4]);
        for i in 0..32u32 {
            for j in [6u32, 7, 30, 31] {
                words.push(((1u32 << i) | (1 << j)).to_be_bytes());
            }
        }
        // runs of ones (all-ones shifted either way) and sign-extended / zero-extended octets and 16-bit values
        for sh in 0..32 {
            words.push((0xffff_ffffu32 << sh).to_be_bytes());
            words.push((0xffff_ffffu32 >> sh).to_be_bytes());
        }
        for x in 0..=255u32 {
            words.push(x.to_be_bytes());
            words.push(((x as u8 as i8) as i32 as u32).to_be_bytes());
            words.push((x << 8).to_be_bytes());
        }
        for x in [0x7fffu32, 0x8000, 0x80c0, 0xff80, 0xffc0, 0xffff] {
            words.push(((x as u16 as i16) as i32 as u32).to_be_bytes());
            words.push(x.to_be_bytes());
        }
        for _ in 0..counts(tier, 100, 20000) {
            words.push((rng.next() as u32).to_be_bytes());
        }
        out.emit(json!({"op": "bitmask", "kind": k, "words": words.iter().map(|w| bytes_json(w)).collect::<Vec<_>>()}));
        // ALL 2^32 words, in 64 chunks (16 threads each): the release build takes every one of them in both tiers, the
        // build with debug assertions 2^22 per chunk (2^28 in all) in the quick tier and all in the thorough tier
        // (64 chunks of 2^26 words: a fraction of a second each, so that even a heavily loaded machine stays far
        //  from the per-case watchdog)
        for chunk in 0..64u64 {
            let lo = chunk << 26;
            out.emit(json!({"op": "bitmask_sweep", "kind": k, "lo": lo, "hi": lo + (1u64 << 26) - 1, "threads": 16,
                            "dev_span_log2": if tier == "thorough" { 26 } else { 22 }}));
        }
        // the same words as whole records through AVP::try_read_greedy, header M bit set / clear / reserved bits set
        for f6 in [1u8, 0, 0x3d, 0x3c] {
            let some: Vec<Value> = words.iter().step_by(if tier == "thorough" { 1 } else { 4 }).map(|w| bytes_json(w)).collect();
            out.emit(json!({"op": "bitmask", "kind": k, "words": some, "f6": f6}));
        }
        // the same words followed by surplus payload octets (ignored by the layout: the word is the first four)
        for surplus in [vec![0u8], vec![0, 0, 0, 0x80], vec![0xff, 0xff, 0xff, 0x3f, 1, 2, 3, 4]] {
            let some: Vec<Value> = words.iter().step_by(if tier == "thorough" { 1 } else { 5 }).map(|w| bytes_json(w)).collect();
            out.emit(json!({"op": "bitmask", "kind": k, "words": some, "surplus": bytes_json(&surplus)}));
        }
    }
}

const NOARG_ERRORS: &[&str] = &[
    "EmptyHiddenAVP", "MisalignedHiddenAVP", "InvalidReservedBits", "IncompleteFlags", "IncompleteDataMessageHeader",
    "IncompleteDataMessagePayload", "EmptyDataMessagePayload", "MessageReadError", "ForbiddenControlMessagePriority",
    "ForbiddenControlMessageOffset", "ControlMessageWithoutLength", "ControlMessageWithoutNsNr",
    "IncompleteControlMessageHeader", "IncompleteControlMessagePayload", "ControlMessageTypeNotFirst",
];
const ONEARG_ERRORS: &[&str] = &[
    "IncompleteAVP", "UnknownMessageType", "InvalidUtf8", "InvalidResultCodeErrorType", "AVPReadError", "InvalidAVPLength",
    "UnknownAvp", "InvalidOriginalAVPLength", "UnsupportedVendorId", "InvalidOffset",
];

pub fn suite_render(out: &mut Out, tier: &str, rng: &mut Rng) {
    // Display under width / alignment / alternate flags, every AVP-naming variant over every assigned type and some others
    for style in ["wide", "left", "alt"] {
        for v in ["IncompleteAVP", "InvalidUtf8", "AVPReadError"] {
            for t in (0u32..=41).chain([255, 256, 65535]) {
                out.emit(json!({"op": "render", "v": {"v": v, "a": [t]}, "style": style}));
            }
        }
    }
    for v in NOARG_ERRORS {
        out.emit(json!({"op": "render", "v": {"v": v, "a": []}}));
    }
    for x in 0..16 {
        out.emit(json!({"op": "render", "v": {"v": "InvalidVersion", "a": [x]}}));
    }
    out.emit(json!({"op": "render", "v": {"v": "InvalidVersion", "a": [255]}}));
    for v in ONEARG_ERRORS {
        let named = matches!(*v, "IncompleteAVP" | "InvalidUtf8" | "AVPReadError");
        let mut xs: Vec<u32> = (0..=45).collect();
        xs.extend([99, 100, 255, 256, 999, 1000, 9999, 10000, 32767, 32768, 65534, 65535]);
        if named && tier == "thorough" {
            xs = (0..=65535).collect();
        } else {
            for _ in 0..counts(tier, 40, 400) {
                xs.push(rng.below(65536) as u32);
            }
        }
        for x in xs {
            out.emit(json!({"op": "render", "v": {"v": v, "a": [x]}}));
        }
    }
}

pub fn suite_cursor(out: &mut Out, tier: &str, rng: &mut Rng) {
    let n = counts(tier, 400, 20000);
    for _ in 0..n {
        let len = match rng.below(6) {
            0 => 0,
            1 => rng.range(1, 3) as usize,
            _ => rng.range(0, 40) as usize,
        };
        let slice = rng.bytes(len);
        let mut lens: Vec<Option<usize>> = vec![Some(len)]; // None = position unknown after a refused bytes()
        let mut ops = Vec::new();
        let steps = rng.range(1, 14);
        for _ in 0..steps {
            let rid = rng.below(lens.len() as u64) as usize;
            let Some(rem) = lens[rid] else { continue };
            match rng.below(10) {
                0..=2 => {
                    let w = *rng.pick(&[1usize, 2, 4, 8]);
                    // occasionally a read that is NOT enabled: the worker must refuse it
                    ops.push(json!([rid, "read", w]));
                    if w <= rem {
                        lens[rid] = Some(rem - w);
                    }
                }
                3 | 4 => {
                    let k = *rng.pick(&[0usize, rem, rem.saturating_sub(1), rem + 1, rem / 2, rem + 1000, 1]);
                    ops.push(json!([rid, "bytes", k]));
                    lens[rid] = if k <= rem { Some(rem - k) } else { None };
                }
                5 | 6 => {
                    let k = *rng.pick(&[0usize, rem, rem / 2, 1.min(rem), rem.saturating_sub(1)]);
                    ops.push(json!([rid, "skip", k]));
                    lens[rid] = Some(rem - k);
                }
                7 | 8 => {
                    let k = *rng.pick(&[0usize, rem, rem / 2, 1.min(rem), rem.saturating_sub(1)]);
                    ops.push(json!([rid, "sub", k]));
                    lens[rid] = Some(rem - k);
                    lens.push(Some(k));
                }
                _ => ops.push(json!([rid, "len", 0])),
            }
        }
        out.emit(json!({"op": "cursor", "slice": bytes_json(&slice), "ops": ops}));
    }
    // medium and large slices: requests around 2^8, 2^10, 2^16 and 2^17 (a size kept in 8 or 16 bits wraps here)
    let plans: &[(usize, [usize; 3])] = &[(300, [255, 256, 257]), (2000, [1023, 1024, 1025]), (70000, [65535, 65536, 65540]), (131100, [65537, 131071, 131072])];
    for (len, sizes) in plans.iter() {
        if *len > 100000 && tier != "thorough" {
            continue;
        }
        let slice = rng.bytes(*len);
        for &sz in sizes.iter() {
            for op in ["sub", "skip", "bytes"] {
                let mut ops = vec![json!([0, "skip", 3]), json!([0, "read", 2]), json!([0, op, sz]), json!([0, "len", 0]), json!([0, "read", 1])];
                if op == "sub" {
                    ops.extend([json!([1, "len", 0]), json!([1, "read", 4]), json!([1, "skip", sz - 10]), json!([1, "bytes", 6]), json!([1, "len", 0]),
                                json!([1, "bytes", 1])]);
                    // a sub-reader of the sub-reader
                    ops.extend([json!([0, "sub", 9]), json!([2, "sub", 5]), json!([3, "read", 4]), json!([3, "len", 0]), json!([2, "len", 0])]);
                }
                ops.push(json!([0, "bytes", 7]));
                out.emit(json!({"op": "cursor", "slice": bytes_json(&slice), "ops": ops}));
            }
        }
    }
    // longer random sequences on slices of a few hundred octets
    for it in 0..counts(tier, 200, 6000) {
        let len = rng.range(100, 700) as usize;
        // (contents: random, all zero, all ones, 0x80 pattern, ascending -- a reader that looks at the VALUES)
        let slice: Vec<u8> = match it % 6 {
            0 => vec![0u8; len],
            1 => vec![0xffu8; len],
            2 => (0..len).map(|i| if i % 2 == 0 { 0x80 } else { 0x00 }).collect(),
            3 => (0..len).map(|i| i as u8).collect(),
            _ => rng.bytes(len),
        };
        let mut lens: Vec<Option<usize>> = vec![Some(len)];
        let mut ops = Vec::new();
        for _ in 0..rng.range(10, 40) {
            let rid = rng.below(lens.len() as u64) as usize;
            let Some(rem) = lens[rid] else { continue };
            let k = *rng.pick(&[0usize, 1, 2, 7, 8, 15, 16, 17, 31, 32, 33, 63, 64, 65, rem, rem / 2, rem.saturating_sub(1)]);
            let k = k.min(rem);
            match rng.below(8) {
                0 | 1 => {
                    let w = *rng.pick(&[1usize, 2, 4, 8]);
                    ops.push(json!([rid, "read", w]));
                    if w <= rem {
                        lens[rid] = Some(rem - w);
                    }
                }
                2 | 3 => {
                    ops.push(json!([rid, "bytes", k]));
                    lens[rid] = Some(rem - k);
                }
                4 => {
                    ops.push(json!([rid, "skip", k]));
                    lens[rid] = Some(rem - k);
                }
                5 | 6 => {
                    ops.push(json!([rid, "sub", k]));
                    lens[rid] = Some(rem - k);
                    lens.push(Some(k));
                }
                _ => ops.push(json!([rid, "len", 0])),
            }
        }
        out.emit(json!({"op": "cursor", "slice": bytes_json(&slice), "ops": ops}));
    }
}

pub fn suite_vecwriter(out: &mut Out, tier: &str, rng: &mut Rng) {
    let n = counts(tier, 400, 20000);
    for _ in 0..n {
        let mut len = 0usize;
        let mut ops = Vec::new();
        for _ in 0..rng.range(1, 10) {
            match rng.below(9) {
                0 | 1 => {
                    let b = rng.rbytes(0, 12);
                    len += b.len();
                    ops.push(json!(["bytes", bytes_json(&b), 0]));
                }
                2 => {
                    len += 1;
                    ops.push(json!(["u8", bytes_json(&rng.bytes(1)), 0]));
                }
                3 => {
                    len += 2;
                    ops.push(json!(["u16", bytes_json(&rng.bytes(2)), 0]));
                }
                4 => {
                    len += 4;
                    ops.push(json!(["u32", bytes_json(&rng.bytes(4)), 0]));
                }
                5 => {
                    len += 8;
                    ops.push(json!(["u64", bytes_json(&rng.bytes(8)), 0]));
                }
                _ => {
                    // positional overwrite: inside, touching the last octet, one beyond, far beyond, empty
                    let k = rng.range(0, 4) as usize;
                    let off = match rng.below(7) {
                        0 => len.saturating_sub(k),         // ends exactly at the end
                        1 => (len + 1).saturating_sub(k),   // one octet beyond
                        2 => len,                           // starts at the end
                        3 => len + rng.range(1, 50) as usize,
                        4 => 0,
                        _ => rng.range(0, len as u64 + 2) as usize,
                    };
                    ops.push(json!(["at", bytes_json(&rng.bytes(k)), off]));
                }
            }
        }
        out.emit(json!({"op": "vecwriter", "ops": ops}));
    }
    // buffers beyond 2^8 / 2^16 octets with overwrites at offsets around those sizes
    for total in [300usize, 70000] {
        for off in [total - 2, total - 1, total, 255, 256, 65535.min(total - 2), 65536.min(total - 2), 65540.min(total - 2)] {
            let mut ops = vec![json!(["bytes", bytes_json(&rng.bytes(total / 2)), 0]), json!(["bytes", bytes_json(&rng.bytes(total - total / 2)), 0])];
            ops.push(json!(["at", bytes_json(&rng.bytes(2)), off]));
            ops.push(json!(["u16", bytes_json(&rng.bytes(2)), 0]));
            ops.push(json!(["at", bytes_json(&rng.bytes(2)), off]));
            out.emit(json!({"op": "vecwriter", "ops": ops}));
        }
    }
}

/// messages with a declared length, for back-to-back and suffix cases
fn declared_message(rng: &mut Rng) -> Vec<u8> {
    if rng.bool() {
        enc_control(&gen_control(rng, 4, 30))
    } else {
        let mut d = gen_data(rng, 40);
        d["offset"] = json!([]);
        let n = json_bytes(&d["data"]).unwrap().len();
        let hdr = 2 + 2 + 4 + if d["ns_nr"].as_array().unwrap().is_empty() { 0 } else { 4 };
        d["length"] = json!([hdr + n]);
        enc_data_from_value(&d, rng)
    }
}

pub fn suite_decode_seq(out: &mut Out, tier: &str, rng: &mut Rng) {
    let n = counts(tier, 400, 20000);
    for _ in 0..n {
        let k = rng.range(1, 4);
        let mut buf = Vec::new();
        for _ in 0..k {
            buf.extend(declared_message(rng));
        }
        match rng.below(5) {
            0 => {
                // a final data message without length takes the rest
                let mut d = gen_data(rng, 20);
                d["length"] = json!([]);
                d["offset"] = json!([]);
                buf.extend(enc_data_from_value(&d, rng));
            }
            1 => buf.extend(rng.rbytes(1, 10)),
            2 => buf = mutate(rng, &buf, &[]),
            _ => {}
        }
        out.emit(json!({"op": "decode_seq", "in": bytes_json(&buf), "opts": gen_opts(rng), "entry": "validate", "max": 8}));
    }
}

pub fn suite_suffix(out: &mut Out, tier: &str, rng: &mut Rng) {
    let n = counts(tier, 500, 20000);
    for _ in 0..n {
        let b = match rng.below(6) {
            0 => {
                let mut d = gen_data(rng, 20);
                d["length"] = json!([]);
                d["offset"] = json!([]);
                enc_data_from_value(&d, rng)
            }
            1 => {
                let x = declared_message(rng);
                mutate(rng, &x, &[])
            }
            _ => declared_message(rng),
        };
        let suffix = match rng.below(3) {
            0 => rng.bytes(1),
            1 => declared_message(rng),
            _ => rng.bytes(40),
        };
        out.emit(json!({"op": "decode_suffix", "in": bytes_json(&b), "suffix": bytes_json(&suffix), "opts": gen_opts(rng), "entry": "validate"}));
    }
    // what typically follows a message in a buffer: padding (runs of 00 / ff of every length 1..=24, and the
    // amounts that fill a frame to 18, 46, 60 or 64 octets), a copy of the message itself, another message with
    // the same ids, an AVP record, a lone flags word -- behind a ZLB, a Hello, longer control messages and data
    // messages with a Length
    let zlb = enc_control(&json!({"k": "Control", "length": 0, "tunnel_id": 9, "session_id": 0, "ns": 1, "nr": 2, "avps": []}));
    let hello = enc_control(&json!({"k": "Control", "length": 0, "tunnel_id": 9, "session_id": 0, "ns": 1, "nr": 2, "avps": [{"k": "MessageType", "f": ["Hello"]}]}));
    let mut bases: Vec<Vec<u8>> = vec![zlb.clone(), hello.clone()];
    for _ in 0..counts(tier, 4, 60) {
        bases.push(declared_message(rng));
    }
    // control messages that must be REJECTED (vendor-specific, unknown, truncated records; a first AVP that is no
    // Message Type) but whose declared end lies inside the buffer: their error lists must not depend on what follows
    for k in 0..counts(tier, 24, 400) {
        let mut body = if k % 7 == 6 { Vec::new() } else { enc_avp(&gen_message_type(rng)) };
        for j in 0..(1 + k % 4) {
            match (k + j) % 5 {
                0 => body.extend(enc_record(1, 6 + (j as usize % 3) * 3 + 2, 9, 7, &rng.bytes((j as usize % 3) * 3 + 2))),
                1 => body.extend(enc_record(1, 9, 0, 20 + (k as u16 % 60) * 2, &[1, 2, 3])),
                2 => body.extend(enc_record(1, 7, 0, 9, &[1])),
                3 => body.extend(enc_record(3, 6 + 16, 77, 7, &rng.bytes(16))),
                _ => body.extend(enc_avp(&gen_avp(rng, 8))),
            }
        }
        bases.push(enc_control_raw(flag_word(true, true, true, false, false, 2), None, [rng.u16(), rng.u16(), rng.u16(), rng.u16()], &body));
    }
    for b in bases.iter() {
        let mut sfx: Vec<Vec<u8>> = Vec::new();
        // (more than 64 KiB behind the message as well)
        if b.len() % 5 == 0 || tier == "thorough" {
            sfx.push(rng.bytes(65536 + 777));
        }
        for n in 1..=24usize {
            sfx.push(vec![0u8; n]);
            if n % 3 == 0 || tier == "thorough" {
                sfx.push(vec![0xffu8; n]);
            }
        }
        for frame in [18usize, 46, 60, 64] {
            if frame > b.len() {
                sfx.push(vec![0u8; frame - b.len()]);
            }
        }
        sfx.push(b.clone());
        sfx.push(zlb.clone());
        sfx.push(hello.clone());
        sfx.push(enc_avp(&gen_avp(rng, 8)));
        sfx.push(vec![0x13, 0x20]);
        sfx.push(b[..b.len().min(12)].to_vec());
        for x in sfx {
            out.emit(json!({"op": "decode_suffix", "in": bytes_json(b), "suffix": bytes_json(&x), "opts": [true, true, true], "entry": "validate"}));
        }
    }
}

pub fn suite_concat(out: &mut Out, tier: &str, rng: &mut Rng) {
    let n = counts(tier, 500, 20000);
    for _ in 0..n {
        let k = rng.range(1, 5);
        let recs: Vec<Value> = (0..k)
            .map(|_| {
                let r = if rng.chance(3, 4) { enc_avp(&gen_avp(rng, 20)) } else { random_record(rng) };
                bytes_json(&r)
            })
            .collect();
        out.emit(json!({"op": "avps_concat", "recs": recs}));
    }
}

fn tail_for(w: u16, rng: &mut Rng) -> Vec<u8> {
    let t = w & 0x0100 != 0;
    let l = w & 0x0200 != 0;
    let s = w & 0x1000 != 0;
    let o = w & 0x4000 != 0;
    let mut v = w.to_be_bytes().to_vec();
    if t {
        let body = enc_avp(&gen_message_type(rng));
        v.extend_from_slice(&((12 + body.len()) as u16).to_be_bytes());
        v.extend_from_slice(&[0, 1, 0, 2, 0, 3, 0, 4]);
        v.extend(body);
    } else {
        let total = 2 + if l { 2 } else { 0 } + 4 + if s { 4 } else { 0 } + if o { 2 } else { 0 } + 2;
        if l {
            v.extend_from_slice(&(total as u16).to_be_bytes());
        }
        v.extend_from_slice(&[0, 1, 0, 2]);
        if s {
            v.extend_from_slice(&[0, 3, 0, 4]);
        }
        if o {
            v.extend_from_slice(&[0, 0]);
        }
        v.extend_from_slice(&[170, 187]);
    }
    v
}

/// C14: flag words under all option sets.  quick: structured subset; thorough: all 65 536 words
pub fn suite_flags(out: &mut Out, tier: &str, rng: &mut Rng) {
    let mut words: Vec<u16> = Vec::new();
    if tier == "thorough" {
        words = (0..=65535u32).map(|x| x as u16).collect();
    } else {
        let reserved: [u16; 9] = [0, 1, 2, 4, 8, 1 << 10, 1 << 11, 1 << 13, 0x2c0f];
        for bits in 0..32u16 {
            let base = (bits & 1) << 8 | ((bits >> 1) & 1) << 9 | ((bits >> 2) & 1) << 12 | ((bits >> 3) & 1) << 14 | ((bits >> 4) & 1) << 15;
            for ver in [0u16, 1, 2, 3, 15] {
                for r in reserved {
                    words.push(base | ver << 4 | r);
                }
            }
        }
        for _ in 0..300 {
            words.push(rng.next() as u16);
        }
    }
    for w in words {
        out.emit(json!({"op": "decode_opts", "in": bytes_json(&tail_for(w, rng))}));
    }
    // arbitrary inputs too
    for _ in 0..counts(tier, 300, 10000) {
        let (b, _) = noncanonical_input(rng);
        out.emit(json!({"op": "decode_opts", "in": bytes_json(&b)}));
    }
    // every combination of T/L/S/O/P (version 2, no reserved bits, and version 3) with 1, 300 and 1000 octets
    // FOLLOWING the message in the reader: whatever a disabled check lets through must still stay inside the message
    for bits in 0..32u16 {
        let base = (bits & 1) << 8 | ((bits >> 1) & 1) << 9 | ((bits >> 2) & 1) << 12 | ((bits >> 3) & 1) << 14 | ((bits >> 4) & 1) << 15;
        for ver in [2u16, 3] {
            for extra in [1usize, 300, 1000] {
                let mut b = tail_for(base | ver << 4, rng);
                b.extend(rng.bytes(extra));
                out.emit(json!({"op": "decode_opts", "in": bytes_json(&b)}));
            }
        }
    }
    // control messages with the O and / or P bit whose AVP area starts with an extreme 16-bit word, followed by
    // more than 64 KiB of further octets (what a disabled unused-field check lets through must stay harmless)
    for bits in [0x4000u16, 0x8000, 0xc000] {
        for first in [0xffffu16, 0xfff2, 0x8000, 0x0000, 0x0108] {
            let mut b = enc_control_raw(flag_word(true, true, true, false, false, 2) | bits, None, [1, 2, 3, 4], &first.to_be_bytes());
            b.extend(rng.bytes(65536 + (first as usize % 17)));
            out.emit(json!({"op": "decode_opts", "in": bytes_json(&b)}));
        }
    }
    // attribute numbers that later protocol versions assign (40..=110), behind a Message Type, under every version
    // nibble that a disabled version check lets through
    for t in 40u16..=110 {
        for ver in [2u8, 3, 0, 15] {
            let mut body = enc_avp(&gen_message_type(rng));
            let p = rng.rbytes(0, 6);
            body.extend(enc_record((t % 2) as u8, 6 + p.len(), 0, t, &p));
            let mut w = enc_control_raw(flag_word(true, true, true, false, false, 2), None, [1, 2, 3, 4], &body);
            w[1] = (w[1] & 0x0f) | (ver << 4);
            out.emit(json!({"op": "decode_opts", "in": bytes_json(&w)}));
        }
    }
    // every option set (and the default entry) on whole messages of many kinds, each under several flag words:
    // as is, version 3, a reserved bit, the P bit, the O bit -- an option must not reach beyond its own bits
    // whatever the message carries
    let mut msgs: Vec<Vec<u8>> = Vec::new();
    for ki in 0..KINDS.len() {
        let m = json!({"k": "Control", "length": 0, "tunnel_id": rng.u16(), "session_id": rng.u16(), "ns": rng.u16(), "nr": rng.u16(),
                       "avps": [gen_message_type(rng), gen_avp_kind(rng, ki, 8)]});
        msgs.push(enc_control(&m));
    }
    for _ in 0..counts(tier, 30, 600) {
        msgs.push(enc_control(&gen_control(rng, 5, 12)));
        let d = gen_data(rng, 20);
        msgs.push(enc_data_from_value(&d, rng));
        // a control message with something wrong inside
        let mut recs = enc_avp(&gen_message_type(rng));
        recs.extend(random_record(rng));
        msgs.push(enc_control_raw(flag_word(true, true, true, false, false, 2), None, [1, 2, 3, 4], &recs));
    }
    for b in msgs.iter() {
        for variant in 0..5usize {
            let mut v = b.clone();
            match variant {
                0 => {}
                1 => v[1] = (v[1] & 0x0f) | 0x30,
                2 => v[0] |= 0x04,
                3 => v[0] |= 0x80,
                _ => v[0] |= 0x40,
            }
            if tier == "thorough" || variant == 0 || rng.chance(1, 2) {
                out.emit(json!({"op": "decode_opts", "in": bytes_json(&v)}));
            }
        }
    }
}

/// C20: a valid message and the same message with exactly one fault
pub fn suite_fault(out: &mut Out, tier: &str, rng: &mut Rng) {
    let strict = json!([true, true, true]);
    let ids = |rng: &mut Rng| [rng.u16(), rng.u16(), rng.u16(), rng.u16()];
    let ctl = |body: &[u8], ids: [u16; 4]| enc_control_raw(flag_word(true, true, true, false, false, 2), None, ids, body);
    let mut emit = |out: &mut Out, base: Vec<u8>, inj: Vec<u8>, v: &str, x: u32, opts: &Value| {
        out.emit(json!({"op": "decode", "base": bytes_json(&base), "in": bytes_json(&inj), "opts": opts, "entry": "validate",
                        "rdr": "slice", "fault": {"v": v, "a": [x]}}));
    };
    let reps = counts(tier, 1, 8);
    for _ in 0..reps {
        // version nibble, control and data
        for x in (0..16u16).filter(|x| *x != 2) {
            for data in [false, true] {
                let base = if data {
                    let mut d = gen_data(rng, 10);
                    d["offset"] = json!([]);
                    d["length"] = json!([]);
                    enc_data_from_value(&d, rng)
                } else {
                    enc_control(&gen_control(rng, 3, 10))
                };
                let mut inj = base.clone();
                inj[1] = (inj[1] & 0x0f) | ((x as u8) << 4);
                emit(out, base, inj, "InvalidVersion", x as u32, &strict);
            }
        }
    }
    let unknown_types: Vec<u16> = if tier == "thorough" {
        std::iter::once(20u16).chain(40..=65535u16).collect()
    } else {
        let mut v = vec![20u16, 40, 41, 42, 63, 64, 100, 255, 256, 257, 1000, 4095, 4096, 32767, 32768, 65534, 65535];
        for _ in 0..60 {
            v.push(rng.range(40, 65535) as u16);
        }
        v
    };
    for t in unknown_types {
        // the second AVP carries the unknown type; the base has a Host Name there with the same payload
        // (or, with an empty payload, a Sequencing Required AVP -- the only kind that may be empty)
        let mt = enc_avp(&gen_message_type(rng));
        let empty = rng.chance(1, 3);
        let p = if empty { vec![] } else { rng.rbytes(1, 8) };
        let extra = if rng.bool() { enc_avp(&gen_avp(rng, 8)) } else { vec![] };
        let mk = |ty: u16| {
            let mut b = mt.clone();
            b.extend(enc_record(1, 6 + p.len(), 0, ty, &p));
            b.extend(extra.clone());
            b
        };
        let i = ids(rng);
        emit(out, ctl(&mk(if empty { 39 } else { 7 }), i), ctl(&mk(t), i), "UnknownAvp", t as u32, &strict);
    }
    let codes: Vec<u16> = {
        let mut v = vec![0u16, 5, 13, 17, 18, 255, 256, 65535];
        for _ in 0..counts(tier, 20, 2000) {
            let c = rng.range(17, 65535) as u16;
            v.push(c);
        }
        v
    };
    for c in codes {
        // a second Message Type AVP (not in first position) with an unassigned code
        let mt = enc_avp(&gen_message_type(rng));
        let mk = |code: u16| {
            let mut b = mt.clone();
            b.extend(enc_record(1, 8, 0, 0, &code.to_be_bytes()));
            b
        };
        let i = ids(rng);
        emit(out, ctl(&mk(6), i), ctl(&mk(c), i), "UnknownMessageType", c as u32, &strict);
    }
    for _ in 0..counts(tier, 40, 3000) {
        // vendor id on a non-first AVP
        let v = rng.range(1, 65535) as u16;
        let mt = enc_avp(&gen_message_type(rng));
        let a = gen_avp(rng, 10);
        let p = enc_payload(&a);
        let h = if a["k"] == "Hidden" { 2 } else { 0 };
        let mk = |vendor: u16| {
            let mut b = mt.clone();
            b.extend(enc_record(1 | h, 6 + p.len(), vendor, avp_type(&a), &p));
            b
        };
        let i = ids(rng);
        emit(out, ctl(&mk(0), i), ctl(&mk(v), i), "UnsupportedVendorId", v as u32, &strict);
    }
    let n_off = counts(tier, 40, 3000);
    for k in 0..(24 + n_off) {
        // offset size beyond what remains (every payload size 1..12 at least twice, then random)
        let nd = if k < 24 { 1 + (k / 2) as usize } else { rng.range(1, 12) as usize };
        let data = rng.bytes(nd);
        let any = rng.range(nd as u64 + 1, 65535) as u16;
        let bad = *rng.pick(&[nd as u16 + 1, nd as u16 + 2, 255, 256, 0x7fff, 0xffff, any]);
        let prio = rng.bool();
        let nsnr = if (k < 24 && k % 2 == 1) || (k >= 24 && rng.bool()) { Some((rng.u16(), rng.u16())) } else { None };
        let mk = |n: u16| enc_data_raw(0, 2, prio, None, 5, 6, nsnr, Some((n, vec![])), &data);
        emit(out, mk(0), mk(bad), "InvalidOffset", bad as u32, &strict);
    }
    for _ in 0..counts(tier, 40, 3000) {
        // error-type code of a Result Code AVP
        let c = rng.range(9, 65535) as u16;
        let mt = enc_avp(&json!({"k": "MessageType", "f": ["StopControlConnectionNotification"]}));
        let msg = if rng.bool() { gen_utf8(rng, 5) } else { vec![] };
        let mk = |code: u16| {
            let mut p = vec![0u8, 1];
            p.extend_from_slice(&code.to_be_bytes());
            p.extend_from_slice(&msg);
            let mut b = mt.clone();
            b.extend(enc_record(1, 6 + p.len(), 0, 1, &p));
            b
        };
        let i = ids(rng);
        emit(out, ctl(&mk(6), i), ctl(&mk(c), i), "InvalidResultCodeErrorType", c as u32, &strict);
    }
    for _ in 0..reps {
        // truncated AVP of every kind with a non-empty minimum
        for (ki, (t, _, prog)) in KINDS.iter().enumerate() {
            let m = min_len(prog);
            if m == 0 {
                continue;
            }
            // every truncation point 0..m-1 of the fixed part
            for cut in 0..m {
                let mt = enc_avp(&gen_message_type(rng));
                let good = enc_payload(&gen_avp_kind(rng, ki, 8));
                let mk = |p: &[u8]| {
                    let mut b = mt.clone();
                    b.extend(enc_record(1, 6 + p.len(), 0, *t, p));
                    b
                };
                let i = ids(rng);
                emit(out, ctl(&mk(&good), i), ctl(&mk(&good[..cut]), i), "IncompleteAVP", *t as u32, &strict);
            }
        }
        // non-UTF-8 text
        for t in [8u16, 21, 22, 23, 12, 1] {
            let mt = enc_avp(&gen_message_type(rng));
            let tn = rng.range(1, 12) as usize;
            let text = gen_utf8(rng, tn);
            let mut badtext = text.clone();
            let at = rng.below(badtext.len() as u64) as usize;
            badtext[at] = *rng.pick(&[0xffu8, 0xc0, 0xf8, 0x80]);
            if at > 0 && badtext[at] == 0x80 {
                badtext[0] = 0x80; // a lone continuation octet is only certain to be invalid at the start
            }
            let mk = |txt: &[u8]| {
                let mut p = match t {
                    12 => vec![0u8, 1, 2],
                    1 => vec![0u8, 1, 0, 6],
                    _ => vec![],
                };
                p.extend_from_slice(txt);
                let mut b = mt.clone();
                b.extend(enc_record(1, 6 + p.len(), 0, t, &p));
                b
            };
            let i = ids(rng);
            emit(out, ctl(&mk(&text), i), ctl(&mk(&badtext), i), "InvalidUtf8", t as u32, &strict);
        }
    }
    // faults in a message that is followed by more than 64 KiB of further messages in the same buffer
    {
        let hello = enc_control(&json!({"k": "Control", "length": 0, "tunnel_id": 1, "session_id": 0, "ns": 0, "nr": 0, "avps": [{"k": "MessageType", "f": ["Hello"]}]}));
        let mut tail: Vec<u8> = Vec::new();
        while tail.len() < 65536 + 500 {
            tail.extend_from_slice(&hello);
        }
        for (v, t, good, bad) in [("UnknownAvp", 77u32, enc_record(1, 8, 0, 7, &[65, 66]), enc_record(1, 8, 0, 77, &[65, 66])),
                                  ("UnsupportedVendorId", 4242, enc_record(1, 8, 0, 7, &[65, 66]), enc_record(1, 8, 4242, 7, &[65, 66])),
                                  ("IncompleteAVP", 9, enc_record(1, 8, 0, 9, &[0, 1]), enc_record(1, 7, 0, 9, &[0])),
                                  ("InvalidUtf8", 8, enc_record(1, 8, 0, 8, &[65, 66]), enc_record(1, 8, 0, 8, &[65, 0xff])),
                                  ("UnknownMessageType", 5, enc_record(1, 8, 0, 0, &[0, 6]), enc_record(1, 8, 0, 0, &[0, 5]))] {
            let mt = enc_avp(&gen_message_type(rng));
            // the octets behind the 12-octet header: 65536 + r for small r (a count kept in 16 bits sees only r there),
            // and an arbitrary larger amount
            for r in [0usize, 1, 7, 15, 500] {
                let mk = |rec: &[u8]| {
                    let mut b = mt.clone();
                    b.extend_from_slice(rec);
                    let mut w = enc_control_raw(flag_word(true, true, true, false, false, 2), None, [1, 2, 3, 4], &b);
                    let want = 12 + 65536 + r;
                    let need = want - w.len();
                    w.extend_from_slice(&tail[..need]);
                    w
                };
                emit(out, mk(&good), mk(&bad), v, t, &strict);
            }
        }
    }
    // the same kinds of fault at other places and under other circumstances: 0..5 valid AVPs before and 0..3
    // after the faulty one, the faulty record's M bit clear or reserved bits set (both ignored by the layout),
    // special header ids, every message type in front
    for rep in 0..counts(tier, 120, 4000) {
        let pre = (rep % 6) as usize;
        let post = ((rep / 6) % 4) as usize;
        let f6 = *rng.pick(&[1u8, 0, 0x3d, 0x3c, 0x21]);
        let ids: [u16; 4] = match rep % 5 { 0 => [0, 0, 0, 0], 1 => [7, 7, 7, 7], 2 => [0, 9, 5, 5], _ => [rng.u16(), rng.u16(), rng.u16(), rng.u16()] };
        let mt = enc_avp(&json!({"k": "MessageType", "f": [MSG_TYPES[(rep as usize) % MSG_TYPES.len()].1]}));
        let before: Vec<u8> = (0..pre).flat_map(|_| enc_avp(&gen_avp(rng, 8))).collect();
        let after: Vec<u8> = (0..post).flat_map(|_| enc_avp(&gen_avp(rng, 8))).collect();
        let build = |rec: &[u8]| {
            let mut b = mt.clone();
            b.extend_from_slice(&before);
            b.extend_from_slice(rec);
            b.extend_from_slice(&after);
            enc_control_raw(flag_word(true, true, true, false, false, 2), None, ids, &b)
        };
        match rep % 5 {
            0 => {
                let t = *rng.pick(&[20u16, 40, 41, 100, 255, 256, 4096, 65535]);
                let p = rng.rbytes(1, 300);
                emit(out, build(&enc_record(f6, 6 + p.len(), 0, 7, &p)), build(&enc_record(f6, 6 + p.len(), 0, t, &p)), "UnknownAvp", t as u32, &strict);
            }
            1 => {
                let v = rng.range(1, 65535) as u16;
                let a = gen_avp(rng, 200);
                let p = enc_payload(&a);
                let h = if a["k"] == "Hidden" { 2 } else { 0 };
                emit(out, build(&enc_record(f6 | h, 6 + p.len(), 0, avp_type(&a), &p)), build(&enc_record(f6 | h, 6 + p.len(), v, avp_type(&a), &p)),
                     "UnsupportedVendorId", v as u32, &strict);
            }
            2 => {
                let ki = rng.below(KINDS.len() as u64) as usize;
                let (t, _, prog) = &KINDS[ki];
                let m = min_len(prog);
                if m > 0 {
                    let good = enc_payload(&gen_avp_kind(rng, ki, 8));
                    let cut = rng.below(m as u64) as usize;
                    emit(out, build(&enc_record(f6, 6 + good.len(), 0, *t, &good)), build(&enc_record(f6, 6 + cut, 0, *t, &good[..cut])), "IncompleteAVP", *t as u32, &strict);
                }
            }
            3 => {
                let t = *rng.pick(&[8u16, 21, 22, 23]);
                let n = rng.range(1, 200) as usize;
                let text = gen_utf8(rng, n);
                let mut bad = text.clone();
                let at = rng.below(bad.len() as u64) as usize;
                bad[at] = 0xff;
                emit(out, build(&enc_record(f6, 6 + text.len(), 0, t, &text)), build(&enc_record(f6, 6 + bad.len(), 0, t, &bad)), "InvalidUtf8", t as u32, &strict);
            }
            _ => {
                let c = *rng.pick(&[0u16, 5, 13, 17, 255, 256, 65535]);
                emit(out, build(&enc_record(f6, 8, 0, 0, &6u16.to_be_bytes())), build(&enc_record(f6, 8, 0, 0, &c.to_be_bytes())), "UnknownMessageType", c as u32, &strict);
            }
        }
    }
}

/// C20, exhaustive over 16-bit offending values: vendor ids, unknown attribute types, unassigned message-type
/// and error-type codes, offset sizes
pub fn suite_fault_sweep(out: &mut Out, _tier: &str, rng: &mut Rng) {
    let ctl = |body: &[u8]| enc_control_raw(flag_word(true, true, true, false, false, 2), None, [7, 8, 9, 10], body);
    let mt = enc_avp(&gen_message_type(rng));
    // vendor id of the second AVP: 1..65535
    {
        let mut body = mt.clone();
        let at = 12 + body.len() + 2;
        body.extend(enc_record(1, 8, 1, 7, &[65, 66]));
        body.extend(enc_avp(&gen_avp(rng, 6)));
        out.emit(json!({"op": "fault_sweep", "in": bytes_json(&ctl(&body)), "at": at, "lo": 1, "hi": 65535, "variant": "UnsupportedVendorId",
                        "samples": [1, 9, 3561, 32768, 65535], "base_value": 0}));
    }
    // attribute type of the second AVP: 40..65535 (and 20)
    for (lo, hi) in [(20u32, 20u32), (40, 65535)] {
        let mut body = mt.clone();
        let at = 12 + body.len() + 4;
        body.extend(enc_record(1, 8, 0, 7, &[65, 66]));
        out.emit(json!({"op": "fault_sweep", "in": bytes_json(&ctl(&body)), "at": at, "lo": lo, "hi": hi, "variant": "UnknownAvp",
                        "samples": [lo, hi, (lo + hi) / 2], "base_value": 7}));
    }
    // code of a second Message Type AVP: 17..65535, 0, 5, 13
    for (lo, hi) in [(0u32, 0u32), (5, 5), (13, 13), (17, 65535)] {
        let mut body = mt.clone();
        let at = 12 + body.len() + 6;
        body.extend(enc_record(1, 8, 0, 0, &[0, 6]));
        out.emit(json!({"op": "fault_sweep", "in": bytes_json(&ctl(&body)), "at": at, "lo": lo, "hi": hi, "variant": "UnknownMessageType",
                        "samples": [lo, hi, (lo + hi) / 2], "base_value": 6}));
    }
    // error type of a Result Code AVP: 9..65535
    {
        let mut body = enc_avp(&json!({"k": "MessageType", "f": ["StopControlConnectionNotification"]}));
        let at = 12 + body.len() + 8;
        body.extend(enc_record(1, 13, 0, 1, &[0, 1, 0, 6, 104, 105, 33]));
        out.emit(json!({"op": "fault_sweep", "in": bytes_json(&ctl(&body)), "at": at, "lo": 9, "hi": 65535, "variant": "InvalidResultCodeErrorType",
                        "samples": [9, 256, 65535], "base_value": 6}));
    }
    // offset size of a data message: 4..65535 with 3 octets after the field
    {
        let b = enc_data_raw(0, 2, false, None, 5, 6, Some((1, 2)), Some((0, vec![])), &[9, 9, 9]);
        let at = 2 + 4 + 4;
        out.emit(json!({"op": "fault_sweep", "in": bytes_json(&b), "at": at, "lo": 4, "hi": 65535, "variant": "InvalidOffset",
                        "samples": [4, 255, 256, 65535], "base_value": 0}));
    }
}

/// C19: the same calls from 16 threads at once
pub fn suite_threads(out: &mut Out, tier: &str, rng: &mut Rng) {
    for _ in 0..counts(tier, 2, 40) {
        let mut calls = Vec::new();
        for j in 0..24 {
            match j % 4 {
                0 | 1 => {
                    let (b, opts) = noncanonical_input(rng);
                    calls.push(json!({"op": "decode", "in": bytes_json(&b), "opts": opts, "entry": "validate", "rdr": "slice", "id": 0}));
                }
                2 => {
                    let (kind, v) = gen_any_value(rng);
                    calls.push(json!({"op": "encode", "kind": kind, "v": v, "prefix": [], "wr": "vec", "id": 0}));
                }
                _ => {
                    let recs = random_record(rng);
                    calls.push(json!({"op": "decode_avps", "in": bytes_json(&recs), "rdr": "slice", "id": 0}));
                }
            }
            if j % 6 == 0 {
                let t = KINDS[rng.below(KINDS.len() as u64) as usize].0;
                calls.push(json!({"op": "reveal", "v": {"k": "Hidden", "f": [t, bytes_json(&rng.bytes(32))]},
                                  "secret": bytes_json(&rng.rbytes(0, 9)), "rv": bytes_json(&rng.bytes(4)), "id": 0}));
                let ki = rng.below(KINDS.len() as u64) as usize;
                let lp = rng.rbytes(0, 30);
                calls.push(json!({"op": "hide", "v": gen_avp_kind(rng, ki, 20), "secret": bytes_json(&rng.rbytes(0, 9)),
                                  "rv": bytes_json(&rng.bytes(4)), "lp": bytes_json(&lp), "ap": bytes_json(&rng.bytes(16)), "id": 0}));
            }
        }
        for _ in 0..6 {
            let w = (rng.next() as u16 & 0xd30f) | (*rng.pick(&[0u16, 0x10, 0x20, 0x20, 0x30]));
            calls.push(json!({"op": "decode_opts", "in": bytes_json(&tail_for(w, rng)), "id": 0}));
        }
        out.emit(json!({"op": "threads", "n": 16, "rounds": 2, "calls": calls}));
    }
}

/// C05: inputs that differ from a valid message only in octets the specification ignores
pub fn suite_ignored(out: &mut Out, tier: &str, rng: &mut Rng) {
    let n = counts(tier, 500, 20000);
    for _ in 0..n {
        let mut body = enc_avp(&gen_message_type(rng));
        for _ in 0..rng.range(1, 5) {
            match rng.below(8) {
                0 => {
                    // reserved octets of Call Errors / ACCM / Proxy Authen ID carry noise
                    let t = *rng.pick(&[34u16, 35, 32]);
                    let ki = KINDS.iter().position(|k| k.0 == t).unwrap();
                    let a = gen_avp_kind(rng, ki, 4);
                    let mut p = enc_payload(&a);
                    p[0] = rng.u8();
                    if t != 32 {
                        p[1] = rng.u8();
                    }
                    body.extend(enc_record(1, 6 + p.len(), 0, t, &p));
                }
                1 => {
                    // Sequencing Required with a payload
                    let p = rng.rbytes(0, 6);
                    body.extend(enc_record(1, 6 + p.len(), 0, 39, &p));
                }
                2 => {
                    // Result Code with an odd third octet
                    let code = rng.u16().to_be_bytes();
                    body.extend(enc_record(1, 9, 0, 1, &[code[0], code[1], rng.u8()]));
                }
                3 => {
                    // surplus payload after a fixed-size kind
                    let fixed: Vec<usize> = (0..KINDS.len())
                        .filter(|i| !KINDS[*i].2.iter().any(|o| matches!(o, Op::Rest | Op::Utf8 | Op::OptUtf8 | Op::OptErr)))
                        .collect();
                    let ki = *rng.pick(&fixed);
                    let a = gen_avp_kind(rng, ki, 4);
                    let mut p = enc_payload(&a);
                    p.extend(rng.rbytes(1, 5));
                    body.extend(enc_record(1, 6 + p.len(), 0, avp_type(&a), &p));
                }
                _ => {
                    // M bit and reserved header bits
                    let a = gen_avp(rng, 16);
                    let p = enc_payload(&a);
                    let h = if a["k"] == "Hidden" { 2 } else { 0 };
                    body.extend(enc_record((rng.u8() & 0x3c) | h | (rng.u8() & 1), 6 + p.len(), 0, avp_type(&a), &p));
                }
            }
        }
        if rng.bool() {
            body.extend(rng.rbytes(1, 5)); // 1..5 trailing octets of the AVP region
        }
        let mut b = enc_control_raw(flag_word(true, true, true, false, false, 2), None, [rng.u16(), rng.u16(), rng.u16(), rng.u16()], &body);
        if rng.bool() {
            b.extend(rng.rbytes(1, 12)); // beyond the declared Length
        }
        out.emit(json!({"op": "decode", "in": bytes_json(&b), "opts": gen_opts(rng), "entry": "validate", "rdr": "slice"}));
    }
}

/// C11: revealing a non-hidden AVP returns it unchanged
pub fn suite_reveal_plain(out: &mut Out, tier: &str, rng: &mut Rng) {
    // crafted plaintexts: a valid value of every kind followed by padding of several contents and lengths
    // (up to three whole blocks of padding)
    for ki in 0..KINDS.len() {
        for (pi, pad) in [0usize, 1, 15, 16, 17, 33, 48].iter().enumerate() {
            if tier != "thorough" && (ki + pi) % 3 != 0 {
                continue;
            }
            let a = gen_avp_kind(rng, ki, 10);
            let p = enc_payload(&a);
            let mut plain = ((6 + p.len()) as u16).to_be_bytes().to_vec();
            plain.extend_from_slice(&p);
            let fill: Vec<u8> = match (ki + pi) % 4 {
                0 => vec![0u8; *pad],
                1 => vec![0xffu8; *pad],
                2 => enc_avp(&gen_avp(rng, 40)).into_iter().cycle().take(*pad).collect(),
                _ => rng.bytes(*pad),
            };
            plain.extend_from_slice(&fill);
            while plain.len() % 16 != 0 {
                plain.push(if pi % 2 == 0 { 0 } else { 0xa5 });
            }
            out.emit(json!({"op": "reveal", "t": KINDS[ki].0, "plain": bytes_json(&plain), "secret": bytes_json(&rng.rbytes(0, 20)), "rv": bytes_json(&rng.bytes(4))}));
        }
    }
    for ki in 0..KINDS.len() {
        for _ in 0..counts(tier, 1, 10) {
            out.emit(json!({"op": "reveal", "v": gen_avp_kind(rng, ki, 30), "secret": bytes_json(&rng.rbytes(0, 20)),
                            "rv": bytes_json(&rng.bytes(4))}));
        }
    }
}

/// a record whose length field is exact (so that it is one item when decoded alone), good or bad
fn delimited_record(rng: &mut Rng) -> Vec<u8> {
    loop {
        let r = random_record(rng);
        if r.len() >= 6 {
            let len = (((r[0] >> 6) as usize) << 8) | r[1] as usize;
            if len == r.len() {
                return r;
            }
        }
    }
}

/// C15: control messages assembled from independently generated good and bad records
pub fn suite_ctl_records(out: &mut Out, tier: &str, rng: &mut Rng) {
    let n = counts(tier, 1500, 60000);
    for _ in 0..n {
        let mut recs: Vec<Vec<u8>> = Vec::new();
        let k = rng.range(0, 12);
        for i in 0..k {
            if i == 0 && rng.chance(5, 6) {
                recs.push(enc_avp(&gen_message_type(rng)));
            } else if rng.chance(2, 3) {
                recs.push(enc_avp(&gen_avp(rng, 16)));
            } else {
                recs.push(delimited_record(rng));
            }
        }
        match rng.below(8) {
            0 => {
                // a record with a length field below 6 somewhere: parsing stops there
                let at = rng.below(recs.len() as u64 + 1) as usize;
                recs.insert(at, enc_record(1, rng.below(6) as usize, 0, 7, &[]));
            }
            1 => {
                // a last record whose length runs past the body
                let p = rng.rbytes(0, 8);
                let excess = if rng.bool() { rng.range(1, 3) as usize } else { rng.range(1, 40) as usize };
                let (flags, vendor) = *rng.pick(&[(1u8, 0u16), (1, 0), (3, 0), (1, 77)]);
                recs.push(enc_record(flags, 6 + p.len() + excess, vendor, *rng.pick(&[7u16, 0, 1, 39, 20]), &p));
            }
            _ => {}
        }
        let body: Vec<u8> = recs.iter().flatten().copied().collect();
        let b = enc_control_raw(flag_word(true, true, true, false, false, 2), None, [rng.u16(), rng.u16(), rng.u16(), rng.u16()], &body);
        out.emit(json!({"op": "ctl_records", "in": bytes_json(&b), "recs": recs.iter().map(|r| bytes_json(r)).collect::<Vec<_>>()}));
    }
}

/// large inputs: sums of wire-supplied 16-bit quantities near 65 535 with the octets really present
pub fn suite_decode_big(out: &mut Out, tier: &str, rng: &mut Rng) {
    // valid and invalid control / data messages with 65536 + r octets (small r) behind their 12-octet header in the
    // same buffer: a remaining-length kept in 16 bits sees only r
    {
        let hello = enc_control(&json!({"k": "Control", "length": 0, "tunnel_id": 1, "session_id": 0, "ns": 0, "nr": 0, "avps": [{"k": "MessageType", "f": ["Hello"]}]}));
        let mut tail: Vec<u8> = Vec::new();
        while tail.len() < 65536 + 600 {
            tail.extend_from_slice(&hello);
        }
        for r in [0usize, 1, 7, 15, 33, 500] {
            for k in 0..4usize {
                let mut w = match k {
                    0 => enc_control(&gen_control(rng, 4, 10)),
                    1 => { let mut b = enc_avp(&gen_message_type(rng)); b.extend(random_record(rng)); enc_control_raw(flag_word(true, true, true, false, false, 2), None, [1, 2, 3, 4], &b) }
                    2 => { let mut d = gen_data(rng, 12); d["offset"] = json!([]); enc_data_from_value(&d, rng) }
                    _ => enc_control(&json!({"k": "Control", "length": 0, "tunnel_id": 1, "session_id": 2, "ns": 3, "nr": 4, "avps": []})),
                };
                let want = 12 + 65536 + r;
                if w.len() < want {
                    let need = want - w.len();
                    w.extend_from_slice(&tail[..need]);
                }
                out.emit(json!({"op": "decode", "in": bytes_json(&w), "opts": [true, true, true], "entry": "validate", "rdr": "slice"}));
                if k == 0 {
                    out.emit(json!({"op": "decode_seq", "in": bytes_json(&w[..w.len().min(70000)]), "opts": [true, true, true], "entry": "validate", "max": 3}));
                }
            }
        }
    }

    let strict = json!([true, true, true]);
    // data messages whose offset pad is nearly 64 KiB (and is really there)
    let osizes: Vec<u16> = if tier == "thorough" {
        (65500..=65535u32).map(|x| x as u16).collect()
    } else {
        vec![65519, 65521, 65522, 65525, 65526, 65529, 65530, 65535]
    };
    for (i, &osz) in osizes.iter().enumerate() {
        for has_len in [false, true] {
            let nsnr = if i % 2 == 0 { Some((rng.u16(), rng.u16())) } else { None };
            let nd = rng.range(1, 9) as usize;
            let pad = rng.bytes(osz as usize);
            let data = rng.bytes(nd);
            let hdr = 2 + if has_len { 2 } else { 0 } + 4 + if nsnr.is_some() { 4 } else { 0 } + 2;
            let total = hdr + osz as usize + nd;
            // Length cannot express totals above 65 535: then it is simply a (too small) wrong value
            let length = if has_len { Some((total & 0xffff) as u16) } else { None };
            let b = enc_data_raw(0, 2, rng.bool(), length, rng.u16(), rng.u16(), nsnr, Some((osz, pad)), &data);
            out.emit(json!({"op": "decode", "in": bytes_json(&b), "opts": strict, "entry": "validate", "rdr": "slice"}));
        }
    }
    // data messages with Length near 65 535, exact / one more than present / one less
    for delta in [-1i64, 0, 1] {
        for nd in [65520usize, 65527, 65529] {
            let data = rng.bytes(nd);
            let total = 2 + 2 + 4 + nd;
            let b = enc_data_raw(0, 2, false, Some(((total as i64 + delta) as usize & 0xffff) as u16), 1, 2, None, None, &data);
            out.emit(json!({"op": "decode", "in": bytes_json(&b), "opts": strict, "entry": "validate", "rdr": "slice"}));
        }
    }
    // control messages of 65 533..65 535 octets made of maximum-size AVPs; Length against the octets present
    for total in [65533usize, 65534, 65535] {
        let mut body = enc_avp(&gen_message_type(rng));
        while body.len() + 1023 <= total - 12 - 7 {
            body.extend(enc_avp(&json!({"k": "HostName", "f": [bytes_json(&rng.bytes(1017))]})));
        }
        let left = total - 12 - body.len();
        if left >= 7 {
            body.extend(enc_avp(&json!({"k": "Challenge", "f": [bytes_json(&rng.bytes(left - 6))]})));
        }
        let ok = enc_control_raw(flag_word(true, true, true, false, false, 2), None, [1, 2, 3, 4], &body);
        out.emit(json!({"op": "decode", "in": bytes_json(&ok), "opts": strict, "entry": "validate", "rdr": "slice"}));
        let mut short = ok.clone();
        short.truncate(ok.len() - 1);
        out.emit(json!({"op": "decode", "in": bytes_json(&short), "opts": strict, "entry": "validate", "rdr": "slice"}));
        let mut long = ok.clone();
        long.extend_from_slice(&[7, 7, 7]);
        out.emit(json!({"op": "decode_suffix", "in": bytes_json(&ok), "suffix": [7, 7, 7], "opts": strict, "entry": "validate"}));
        let _ = long;
    }
    // a 64 KiB bare AVP list, and one whose last record overruns
    let mut list = Vec::new();
    while list.len() < 65536 {
        list.extend(enc_avp(&gen_avp(rng, 1017)));
    }
    out.emit(json!({"op": "decode_avps", "in": bytes_json(&list), "rdr": "slice"}));
    list.extend(enc_record(1, 1023, 0, 7, &rng.bytes(100)));
    out.emit(json!({"op": "decode_avps", "in": bytes_json(&list), "rdr": "slice"}));
}


/// C19: one thread, the same calls repeated in different orders (results must not depend on history)
pub fn suite_history(out: &mut Out, tier: &str, rng: &mut Rng) {
    for _ in 0..counts(tier, 2, 30) {
        let mut calls = Vec::new();
        for j in 0..120 {
            match j % 6 {
                0 | 1 => {
                    let (b, opts) = noncanonical_input(rng);
                    let b = if rng.chance(1, 3) { mutate(rng, &b, &[]) } else { b };
                    calls.push(json!({"op": "decode", "in": bytes_json(&b), "opts": opts, "entry": "validate", "rdr": "slice", "id": 0}));
                }
                2 => {
                    let (kind, v) = gen_any_value(rng);
                    calls.push(json!({"op": "encode", "kind": kind, "v": v, "prefix": [], "wr": "vec", "id": 0}));
                }
                3 => {
                    let mut recs = random_record(rng);
                    recs.extend(random_record(rng));
                    calls.push(json!({"op": "decode_avps", "in": bytes_json(&recs), "rdr": "slice", "id": 0}));
                }
                4 => {
                    let ki = rng.below(KINDS.len() as u64) as usize;
                    let lp = rng.rbytes(0, 12);
                    calls.push(json!({"op": "hide_reveal", "v": gen_avp_kind(rng, ki, 10), "secret": bytes_json(&rng.rbytes(0, 8)),
                                      "rv": bytes_json(&rng.bytes(4)), "lp": bytes_json(&lp), "ap": bytes_json(&rng.bytes(16)), "id": 0}));
                }
                _ => {
                    let m = gen_control(rng, 4, 20);
                    calls.push(json!({"op": "roundtrip", "kind": "msg", "v": m, "id": 0}));
                }
            }
            if j % 5 == 0 {
                // reveals that fail in different ways (wrong key, empty, misaligned), then a hide
                let t = KINDS[rng.below(KINDS.len() as u64) as usize].0;
                let n = *rng.pick(&[0usize, 5, 16, 16, 32, 32, 48]);
                calls.push(json!({"op": "reveal", "v": {"k": "Hidden", "f": [t, bytes_json(&rng.bytes(n))]},
                                  "secret": bytes_json(&rng.rbytes(0, 9)), "rv": bytes_json(&rng.bytes(4)), "id": 0}));
                let ki = rng.below(KINDS.len() as u64) as usize;
                let lp = rng.rbytes(0, 30);
                calls.push(json!({"op": "hide", "v": gen_avp_kind(rng, ki, 20), "secret": bytes_json(&rng.rbytes(0, 9)),
                                  "rv": bytes_json(&rng.bytes(4)), "lp": bytes_json(&lp), "ap": bytes_json(&rng.bytes(16)), "id": 0}));
            }
        }
        // hides that differ only in the CONTENT of the secret (same kind, random vector and lengths), adjacent
        for _ in 0..4 {
            let ki = rng.below(KINDS.len() as u64) as usize;
            let a = gen_avp_kind(rng, ki, 10);
            let rv = rng.bytes(4);
            let sl = rng.range(1, 24) as usize;
            let lp = rng.rbytes(0, 20);
            let ap = rng.bytes(16);
            for _ in 0..3 {
                calls.push(json!({"op": "hide", "v": a, "secret": bytes_json(&rng.bytes(sl)), "rv": bytes_json(&rv),
                                  "lp": bytes_json(&lp), "ap": bytes_json(&ap), "id": 0}));
            }
        }
        // near-duplicates, adjacent: two valid AVPs of the same kind and length that differ only in letter case,
        // in one bit of the first / last payload octet, or in the order of two octets -- a cache keyed on less
        // than the whole input answers the second with the first
        for (ki, (t, _, _)) in KINDS.iter().enumerate() {
            let a = gen_avp_kind(rng, ki, 9);
            let p = enc_payload(&a);
            if p.is_empty() {
                continue;
            }
            let mut variants: Vec<Vec<u8>> = Vec::new();
            let cased: Vec<u8> = p.iter().map(|c| if c.is_ascii_alphabetic() { c ^ 0x20 } else { *c }).collect();
            if cased != p {
                variants.push(cased);
            }
            let mut q = p.clone();
            q[0] ^= 1;
            variants.push(q);
            let mut q = p.clone();
            let l = q.len() - 1;
            q[l] ^= 0x80;
            variants.push(q);
            if p.len() >= 2 && p[0] != p[1] {
                let mut q = p.clone();
                q.swap(0, 1);
                variants.push(q);
            }
            let mt = enc_avp(&gen_message_type(rng));
            let wrap = |pl: &[u8]| {
                let mut b = mt.clone();
                b.extend(enc_record(1, 6 + pl.len(), 0, *t, pl));
                enc_control_raw(flag_word(true, true, true, false, false, 2), None, [1, 2, 3, 4], &b)
            };
            calls.push(json!({"op": "decode", "in": bytes_json(&wrap(&p)), "opts": [true, true, true], "entry": "validate", "rdr": "slice", "id": 0}));
            // (p, v1, v2, ...: in the reversed rounds each one follows a DIFFERENT neighbour, so an answer taken
            // from the previous call shows as a result that depends on the history)
            for v in variants {
                calls.push(json!({"op": "decode", "in": bytes_json(&wrap(&v)), "opts": [true, true, true], "entry": "validate", "rdr": "slice", "id": 0}));
            }
        }
        // a sample of structured content (RFC-composed messages of every type with hidden, vendor-specific and
        // unknown records mixed in) so that calls of many kinds meet many different predecessors
        for (mi, (_, mt)) in MSG_TYPES.iter().enumerate() {
            let mut recs = enc_avp(&json!({"k": "MessageType", "f": [mt]}));
            for j in 0..3 {
                match (mi + j) % 5 {
                    0 => recs.extend(enc_avp(&gen_hidden(rng, 16))),
                    1 => recs.extend(enc_record(1, 8, 9, 7, &[65, 66])),
                    2 => recs.extend(enc_record(0, 7, 0, 46, &[1])),
                    _ => recs.extend(enc_avp(&gen_avp(rng, 8))),
                }
            }
            let w = enc_control_raw(flag_word(true, true, true, false, false, 2), None, [mi as u16, 2, 3, 4], &recs);
            calls.push(json!({"op": "decode", "in": bytes_json(&w), "opts": [true, true, true], "entry": "validate", "rdr": "slice", "id": 0}));
            let clean = gen_control(rng, 3, 8);
            calls.push(json!({"op": "decode", "in": bytes_json(&enc_control(&clean)), "opts": [true, true, true], "entry": "validate", "rdr": "slice", "id": 0}));
        }
        // two different secrets with the SAME MD5 (the published Wang et al. 128-octet collision pair), used one after
        // the other with everything else equal: anything keyed on a digest of the secret confuses them
        {
            let unhex = |h: &str| -> Vec<u8> { (0..h.len() / 2).map(|i| u8::from_str_radix(&h[2 * i..2 * i + 2], 16).unwrap()).collect() };
            let s1 = unhex("d131dd02c5e6eec4693d9a0698aff95c2fcab58712467eab4004583eb8fb7f8955ad340609f4b30283e488832571415a085125e8f7cdc99fd91dbdf280373c5bd8823e3156348f5bae6dacd436c919c6dd53e2b487da03fd02396306d248cda0e99f33420f577ee8ce54b67080a80d1ec69821bcb6a8839396f9652b6ff72a70");
            let s2 = unhex("d131dd02c5e6eec4693d9a0698aff95c2fcab50712467eab4004583eb8fb7f8955ad340609f4b30283e4888325f1415a085125e8f7cdc99fd91dbd7280373c5bd8823e3156348f5bae6dacd436c919c6dd53e23487da03fd02396306d248cda0e99f33420f577ee8ce54b67080280d1ec69821bcb6a8839396f965ab6ff72a70");
            for rep in 0..2 {
                let a = if rep == 0 { host(20, rng) } else { gen_avp_kind(rng, 11, 30) };
                let rv = rng.bytes(4);
                // (pairs with unrelated calls around them: in the reversed rounds the second of a pair comes first)
                for pair in [[&s1, &s2], [&s2, &s1]] {
                    let other = gen_avp_kind(rng, 21, 8);
                    calls.push(json!({"op": "hide", "v": other, "secret": bytes_json(&rng.rbytes(1, 9)), "rv": bytes_json(&rng.bytes(4)), "lp": [], "ap": bytes_json(&[0u8; 16]), "id": 0}));
                    for sec in pair {
                        calls.push(json!({"op": "hide_reveal", "v": a, "secret": bytes_json(sec), "rv": bytes_json(&rv), "lp": [], "ap": bytes_json(&[0u8; 16]), "id": 0}));
                    }
                    let other = gen_avp_kind(rng, 22, 8);
                    calls.push(json!({"op": "hide", "v": other, "secret": bytes_json(&rng.rbytes(1, 9)), "rv": bytes_json(&rng.bytes(4)), "lp": [], "ap": bytes_json(&[0u8; 16]), "id": 0}));
                }
            }
        }
        // arguments of one call assembled from what the previous call left in its working buffers: after a hide of
        // two or more blocks the last MD5 input was `secret || previous cipher block`; the next hide's
        // `type || secret' || rv'` is made equal to exactly those octets
        for rep in 0..4u16 {
            let tt = [7u16, 11, 30, 37][rep as usize % 4];
            let mut secret1 = vec![(tt >> 8) as u8, tt as u8];
            secret1.extend(rng.rbytes(1, 10));
            let rv1 = rng.bytes(4);
            let nblk = 2 + (rep as usize % 3);
            let value = rng.bytes(16 * nblk - 2);
            let a = json!({"k": "HostName", "f": [bytes_json(&value)]});
            let mut plain = ((6 + value.len()) as u16).to_be_bytes().to_vec();
            plain.extend_from_slice(&value);
            let cipher = craft_hidden(7, &plain, &secret1, &rv1);
            let c = &cipher[16 * (nblk - 2)..16 * (nblk - 1)];          // the second-to-last cipher block
            let mut secret2 = secret1[2..].to_vec();
            secret2.extend_from_slice(&c[..12]);
            let rv2 = c[12..16].to_vec();
            let kind2 = KINDS.iter().find(|k| k.0 == tt).unwrap().1;
            let b = json!({"k": kind2, "f": [bytes_json(&rng.rbytes(3, 40))]});
            calls.push(json!({"op": "hide", "v": a, "secret": bytes_json(&secret1), "rv": bytes_json(&rv1), "lp": [], "ap": bytes_json(&[0u8; 16]), "id": 0}));
            calls.push(json!({"op": "hide", "v": b, "secret": bytes_json(&secret2), "rv": bytes_json(&rv2), "lp": [], "ap": bytes_json(&[0u8; 16]), "id": 0}));
            calls.push(json!({"op": "hide_reveal", "v": b, "secret": bytes_json(&secret2), "rv": bytes_json(&rv2), "lp": [], "ap": bytes_json(&[0u8; 16]), "id": 0}));
        }
        // session flows: control messages of every type composed as the RFC prescribes (every optional AVP present,
        // Sequencing Required included) and data messages of every header shape, all under the SAME tunnel / session
        // ids -- a codec that remembers sessions answers the data messages differently before and after
        for flow in 0..3u16 {
            let (tid, sid) = (100 + flow, 200 + flow);
            for (mt, names) in [("IncomingCallRequest", vec!["AssignedSessionId", "CallSerialNumber"]),
                                ("IncomingCallConnected", vec!["TxConnectSpeed", "FramingType", "RxConnectSpeed", "SequencingRequired"]),
                                ("OutgoingCallConnected", vec!["TxConnectSpeed", "FramingType", "SequencingRequired"]),
                                ("SetLinkInfo", vec!["Accm"]), ("CallDisconnectNotify", vec!["ResultCode", "AssignedSessionId"]),
                                ("StopControlConnectionNotification", vec!["AssignedTunnelId", "ResultCode"])] {
                let mut avps = vec![json!({"k": "MessageType", "f": [mt]})];
                for nme in names {
                    let ki = KINDS.iter().position(|k| k.1 == nme).unwrap();
                    avps.push(gen_avp_kind(rng, ki, 6));
                }
                let m = json!({"k": "Control", "length": 0, "tunnel_id": tid, "session_id": sid, "ns": flow, "nr": flow, "avps": avps});
                calls.push(json!({"op": "decode", "in": bytes_json(&enc_control(&m)), "opts": [true, true, true], "entry": "validate", "rdr": "slice", "id": 0}));
                for shape in 0..4usize {
                    let data = rng.rbytes(1, 9);
                    let has_len = shape & 1 == 1;
                    let has_s = shape & 2 == 2;
                    let total = 2 + if has_len { 2 } else { 0 } + 4 + if has_s { 4 } else { 0 } + data.len();
                    let d = json!({"k": "Data", "prio": false, "length": if has_len { json!([total]) } else { json!([]) }, "tunnel_id": tid, "session_id": sid,
                                   "ns_nr": if has_s { json!([[1, 2]]) } else { json!([]) }, "offset": [], "data": bytes_json(&data)});
                    calls.push(json!({"op": "decode", "in": bytes_json(&enc_data_from_value(&d, rng)), "opts": [true, true, true], "entry": "validate", "rdr": "slice", "id": 0}));
                    calls.push(json!({"op": "roundtrip", "kind": "msg", "v": d, "id": 0}));
                }
            }
        }
        // texts that differ only in case / normalisation form, in every text kind
        for k in ["VendorName", "CalledNumber", "CallingNumber", "SubAddress", "ResultCode", "Q931CauseCode"] {
            for (x, y) in [("Acme Networks", "ACME NETWORKS"), ("abc", "ABC"), ("e\u{301}", "\u{e9}"), ("a b", "a\u{a0}b"), ("x\r\n", "x\n\n")] {
                for t in [x, y] {
                    let a = text_avp(k, t.as_bytes(), rng);
                    let m = json!({"k": "Control", "length": 0, "tunnel_id": 1, "session_id": 2, "ns": 3, "nr": 4,
                                   "avps": [json!({"k": "MessageType", "f": ["Hello"]}), a]});
                    calls.push(json!({"op": "decode", "in": bytes_json(&enc_control(&m)), "opts": [true, true, true], "entry": "validate", "rdr": "slice", "id": 0}));
                }
            }
        }
        // the same octets under lax and then strict options, adjacent in the even rounds and apart in the
        // odd (reversed) ones: a result must not depend on what an earlier call accepted
        for _ in 0..10 {
            let w = (rng.next() as u16 & 0xd30f) | (*rng.pick(&[0u16, 0x10, 0x20, 0x20, 0x30]));
            let b = tail_for(w, rng);
            calls.push(json!({"op": "decode", "in": bytes_json(&b), "opts": [false, false, false], "entry": "validate", "rdr": "slice", "id": 0}));
            calls.push(json!({"op": "decode", "in": bytes_json(&b), "opts": [true, true, true], "entry": "validate", "rdr": "slice", "id": 0}));
            calls.push(json!({"op": "decode", "in": bytes_json(&b), "opts": [false, true, false], "entry": "default", "rdr": "slice", "id": 0}));
        }
        for _ in 0..12 {
            let w = (rng.next() as u16 & 0xd30f) | (*rng.pick(&[0u16, 0x10, 0x20, 0x20, 0x30]));
            calls.push(json!({"op": "decode_opts", "in": bytes_json(&tail_for(w, rng)), "id": 0}));
        }
        out.emit(json!({"op": "threads", "n": 1, "rounds": 3, "calls": calls}));
    }
}


/// many AVPs in one message: counts around 16/17, 255/256/257 and beyond (decode, chain and round trip)
pub fn suite_many_avps(out: &mut Out, tier: &str, rng: &mut Rng) {
    let counts_list: Vec<usize> = if tier == "thorough" {
        vec![13, 15, 16, 17, 18, 31, 32, 33, 63, 64, 65, 127, 128, 129, 254, 255, 256, 257, 258, 511, 512, 513, 1000, 4000]
    } else {
        vec![15, 16, 17, 18, 33, 64, 65, 255, 256, 257, 300]
    };
    // many BAD records in one message: 255, 256, 257, 512 errors (an error counter must not wrap)
    for &n in [255usize, 256, 257, 512].iter() {
        if tier != "thorough" && n == 512 {
            continue;
        }
        let mut recs: Vec<Vec<u8>> = vec![enc_avp(&gen_message_type(rng))];
        for i in 0..n {
            recs.push(match i % 3 {
                0 => enc_record(1, 8, 0, *rng.pick(&[20u16, 40, 999]), &[1, 2]),
                1 => enc_record(1, 8, 0, 0, &[0, 5]),
                _ => enc_record(1, 7, 0, 6, &[1]),
            });
        }
        let body: Vec<u8> = recs.iter().flatten().copied().collect();
        let b = enc_control_raw(flag_word(true, true, true, false, false, 2), None, [1, 2, 3, 4], &body);
        out.emit(json!({"op": "ctl_records", "in": bytes_json(&b), "recs": recs.iter().map(|r| bytes_json(r)).collect::<Vec<_>>()}));
        out.emit(json!({"op": "decode", "in": bytes_json(&b), "opts": [true, true, true], "entry": "validate", "rdr": "slice"}));
    }
    // as many AVPs as a 65 535-octet message can hold (10 919 six-octet records after the Message Type)
    for n in [8191usize, 8192, 10920] {
        if tier != "thorough" && n == 8191 {
            continue;
        }
        let mut avps = vec![gen_message_type(rng)];
        for _ in 1..n {
            avps.push(json!({"k": "SequencingRequired", "f": []}));
        }
        let m = json!({"k": "Control", "length": 0, "tunnel_id": 1, "session_id": 2, "ns": 3, "nr": 4, "avps": avps});
        out.emit(json!({"op": "roundtrip", "kind": "msg", "v": m}));
    }
    for &n in counts_list.iter() {
        for variant in 0..2 {
            let mut avps = vec![gen_message_type(rng)];
            for i in 1..n {
                let a = if variant == 0 {
                    // small fixed kinds so that even thousands fit the 16-bit message length
                    match i % 3 {
                        0 => json!({"k": "SequencingRequired", "f": []}),
                        1 => json!({"k": "ProtocolVersion", "f": [rng.u8(), rng.u8()]}),
                        _ => json!({"k": "ReceiveWindowSize", "f": [rng.u16()]}),
                    }
                } else if n <= 300 {
                    gen_avp(rng, 6)
                } else {
                    json!({"k": "FirmwareRevision", "f": [rng.u16()]})
                };
                avps.push(a);
            }
            let m = json!({"k": "Control", "length": 0, "tunnel_id": rng.u16(), "session_id": rng.u16(), "ns": rng.u16(), "nr": rng.u16(), "avps": avps});
            let wire = enc_control(&m);
            if wire.len() > 65535 {
                continue;
            }
            out.emit(json!({"op": "roundtrip", "kind": "msg", "v": m}));
            out.emit(json!({"op": "decode", "in": bytes_json(&wire), "opts": [true, true, true], "entry": "validate", "rdr": "slice"}));
            out.emit(json!({"op": "chain", "in": bytes_json(&wire), "opts": [true, true, true]}));
            // the same message at a non-zero writer position, alone and as the second of two
            out.emit(json!({"op": "encode", "kind": "msg", "v": m, "prefix": bytes_json(&rng.rbytes(1, 40)), "wr": if variant == 0 { "mon" } else { "vec" }}));
            out.emit(json!({"op": "encode_seq", "items": [{"kind": "msg", "v": gen_control(rng, 2, 8)}, {"kind": "msg", "v": m}]}));
            // the same records as a bare list: the whole against the parts (C08)
            if n <= 600 {
                let recs_all: Vec<Value> = m["avps"].as_array().unwrap().iter().map(|a| bytes_json(&enc_avp(a))).collect();
                out.emit(json!({"op": "avps_concat", "recs": recs_all}));
                out.emit(json!({"op": "decode_avps", "in": bytes_json(&wire[12..]), "rdr": "slice"}));
            }
            // one bad record at a particular position among many
            let recs: Vec<Vec<u8>> = m["avps"].as_array().unwrap().iter().map(enc_avp).collect();
            let mut recs2 = recs.clone();
            let at = *rng.pick(&[n - 1, n / 2, 16.min(n - 1), 17.min(n - 1), 1]);
            recs2[at] = enc_record(1, 8, 0, *rng.pick(&[20u16, 40, 255]), &[1, 2]);
            let body: Vec<u8> = recs2.iter().flatten().copied().collect();
            let b = enc_control_raw(flag_word(true, true, true, false, false, 2), None, [1, 2, 3, 4], &body);
            out.emit(json!({"op": "ctl_records", "in": bytes_json(&b), "recs": recs2.iter().map(|r| bytes_json(r)).collect::<Vec<_>>()}));
        }
    }
}


/// every small value (0..40) of every 8/16-bit field of every kind, other fields random: values that
/// collide with enumerated codes, header sizes or flags inside the codec
pub fn suite_small_values(out: &mut Out, tier: &str, rng: &mut Rng) {
    for (ki, (_, name, prog)) in KINDS.iter().enumerate() {
        let mut fi = 0usize;
        for o in prog.iter() {
            let is_small = matches!(o, Op::U8 | Op::U16);
            if is_small {
                let top = if tier == "thorough" { 300u64 } else { 40 };
                for val in 0..=top {
                    if matches!(o, Op::U8) && val > 255 {
                        break;
                    }
                    let mut a = gen_avp_kind(rng, ki, 6);
                    a["f"][fi] = json!(val);
                    if *name == "ResultCode" {
                        // every small code both with and without the optional error part
                        let mut bare = a.clone();
                        bare["f"][1] = json!([]);
                        bare["f"][2] = json!([]);
                        let other = if a["f"][1].as_array().map_or(true, |x| x.is_empty()) {
                            json!({"k": "ResultCode", "f": [val, ["Generic"], []]})
                        } else {
                            bare
                        };
                        out.emit(json!({"op": "roundtrip", "kind": "avp", "v": other}));
                        out.emit(json!({"op": "decode_payload", "t": 1, "in": bytes_json(&enc_payload(&other)), "rdr": "slice"}));
                    }
                    out.emit(json!({"op": "decode_payload", "t": KINDS[ki].0, "in": bytes_json(&enc_payload(&a)), "rdr": "slice"}));
                    out.emit(json!({"op": "roundtrip", "kind": "avp", "v": a}));
                    let m = json!({"k": "Control", "length": 0, "tunnel_id": val, "session_id": rng.u16(), "ns": val, "nr": rng.u16(),
                                   "avps": [gen_message_type(rng), a]});
                    out.emit(json!({"op": "chain", "in": bytes_json(&enc_control(&m)), "opts": [true, true, true]}));
                }
            }
            match o {
                Op::Skip(_) => {}
                Op::OptErr => fi += 2,
                _ => fi += 1,
            }
        }
    }
    // small values of the message header fields
    for val in 0..=40u16 {
        let m = json!({"k": "Control", "length": val, "tunnel_id": val, "session_id": val, "ns": val, "nr": val, "avps": [gen_message_type(rng)]});
        out.emit(json!({"op": "roundtrip", "kind": "msg", "v": m}));
        let mut d = gen_data(rng, 6);
        d["tunnel_id"] = json!(val);
        d["session_id"] = json!(val);
        if !d["ns_nr"].as_array().unwrap().is_empty() {
            d["ns_nr"] = json!([[val, val]]);
        }
        out.emit(json!({"op": "roundtrip", "kind": "msg", "v": d}));
    }
}


/// every AVP length 6..=1023 (all ten bits of the length field, in both octets) and message lengths with every
/// bit of the 16-bit Length field set / clear around powers of two: encoded, decoded, re-encoded
pub fn suite_avp_lengths(out: &mut Out, tier: &str, rng: &mut Rng) {
    for total in 6usize..=1023 {
        let n = total - 6;
        // a payload-less record only exists for kinds that may be empty; HostName needs >= 1 octet to round-trip
        let kinds: Vec<Value> = if n == 0 {
            vec![json!({"k": "SequencingRequired", "f": []}), json!({"k": "Hidden", "f": [rng.u16(), []]})]
        } else {
            vec![host(n, rng), json!({"k": "Hidden", "f": [rng.u16(), bytes_json(&rng.bytes(n))]})]
        };
        for (i, a) in kinds.iter().enumerate() {
            out.emit(json!({"op": "roundtrip", "kind": "avp", "v": a}));
            if i == 0 || total % 4 == 0 {
                let m = json!({"k": "Control", "length": 0, "tunnel_id": rng.u16(), "session_id": rng.u16(), "ns": rng.u16(), "nr": rng.u16(),
                               "avps": [gen_message_type(rng), a, gen_avp(rng, 6)]});
                let wire = enc_control(&m);
                out.emit(json!({"op": "decode", "in": bytes_json(&wire), "opts": [true, true, true], "entry": "validate", "rdr": "slice"}));
                if total % 8 == (i * 4) % 8 {
                    out.emit(json!({"op": "chain", "in": bytes_json(&wire), "opts": [true, true, true]}));
                    out.emit(json!({"op": "encode", "kind": "msg", "v": m, "prefix": bytes_json(&rng.bytes(total % 7)), "wr": if total % 16 < 8 { "vec" } else { "mon" }}));
                }
            }
        }
    }
    // data messages: every payload size 1..=300 and sizes around powers of two, all four header shapes with a
    // Length field, offsets 0 / 1 / n-1
    let mut sizes: Vec<usize> = (1..=300).collect();
    for k in 9..=15u32 {
        let p = 1usize << k;
        sizes.extend([p - 1, p, p + 1]);
    }
    sizes.push(65535 - 14);
    sizes.push(65535 - 15);
    for (j, &n) in sizes.iter().enumerate() {
        let data = rng.bytes(n);
        for shape in 0..4usize {
            if n > 300 && shape != j % 4 {
                continue;
            }
            let ns_nr = if shape & 1 == 1 { json!([[rng.u16(), rng.u16()]]) } else { json!([]) };
            let offset: Option<usize> = if shape & 2 == 2 { Some(*rng.pick(&[0usize, 1.min(n - 1), n - 1])) } else { None };
            let total = 2 + 2 + 4 + if shape & 1 == 1 { 4 } else { 0 } + if offset.is_some() { 2 } else { 0 } + n;
            if total > 65535 {
                continue;
            }
            let d = json!({"k": "Data", "prio": rng.bool(), "length": [total], "tunnel_id": rng.u16(), "session_id": rng.u16(),
                           "ns_nr": ns_nr, "offset": opt_json(offset.map(|x| json!(x))), "data": bytes_json(&data)});
            out.emit(json!({"op": "roundtrip", "kind": "msg", "v": d}));
        }
    }
    // data messages beyond 64 KiB (legal without a Length field) whose offset size is 65520..=65535
    for n in [65520usize, 65524, 65527, 65528, 65531, 65535] {
        for has_s in [false, true] {
            let data = rng.bytes(n + 1 + (n % 7));
            let d = json!({"k": "Data", "prio": n % 2 == 0, "length": [], "tunnel_id": rng.u16(), "session_id": rng.u16(),
                           "ns_nr": if has_s { json!([[rng.u16(), rng.u16()]]) } else { json!([]) }, "offset": [n], "data": bytes_json(&data)});
            out.emit(json!({"op": "roundtrip", "kind": "msg", "v": d}));
        }
    }
    // message Length: every bit position on both sides of a carry
    let mut totals: Vec<usize> = vec![];
    for k in 5..=15u32 {
        let p = 1usize << k;
        for t in [p - 1, p, p + 1, p + p / 2 - 1, p + p / 2] {
            if t >= 12 + 8 + 7 && t <= 65535 {
                totals.push(t);
            }
        }
    }
    if tier == "thorough" {
        for _ in 0..60 {
            totals.push(rng.range(27, 65535) as usize);
        }
    }
    for t in totals {
        let m = control_of_size(t, rng);
        out.emit(json!({"op": "roundtrip", "kind": "msg", "v": m}));
        let wire = enc_control(&m);
        out.emit(json!({"op": "decode_seq", "in": bytes_json(&[wire.clone(), wire].concat()), "opts": [true, true, true], "entry": "validate", "max": 4}));
    }
}

/// two-way combinations: every ordered pair of AVP kinds (the 39 standard kinds and an opaque hidden AVP)
/// adjacent in one control message -- valid/valid (encoded, decoded, chained, records concatenated) and
/// truncated/valid (the error list and what follows a bad record of every kind)
pub fn suite_kind_pairs(out: &mut Out, tier: &str, rng: &mut Rng) {
    let nk = KINDS.len();
    let pick = |rng: &mut Rng, k: usize| -> Value { if k < nk { gen_avp_kind(rng, k, 9) } else { gen_hidden(rng, 20) } };
    let ctl = |body: &[u8], rng: &mut Rng| enc_control_raw(flag_word(true, true, true, false, false, 2), None, [rng.u16(), rng.u16(), rng.u16(), rng.u16()], body);
    for k1 in 0..=nk {
        for k2 in 0..=nk {
            let (a, b) = (pick(rng, k1), pick(rng, k2));
            let mt = gen_message_type(rng);
            let m = json!({"k": "Control", "length": 0, "tunnel_id": rng.u16(), "session_id": rng.u16(), "ns": rng.u16(), "nr": rng.u16(),
                           "avps": [mt, a, b]});
            out.emit(json!({"op": "roundtrip", "kind": "msg", "v": m}));
            let sel = (k1 * 41 + k2) % 4;
            if tier == "thorough" || sel == 0 {
                out.emit(json!({"op": "chain", "in": bytes_json(&enc_control(&m)), "opts": [true, true, true]}));
            }
            if tier == "thorough" || sel == 1 {
                out.emit(json!({"op": "avps_concat", "recs": [bytes_json(&enc_avp(&a)), bytes_json(&enc_avp(&b))]}));
            }
            if tier == "thorough" || sel == 2 {
                out.emit(json!({"op": "encode", "kind": "msg", "v": m, "prefix": bytes_json(&rng.rbytes(1, 9)), "wr": "mon"}));
            }
            // a bad record of kind k1 (truncated fixed part, or an undecodable tail) followed by a good one of kind k2
            if k1 < nk {
                let (t, _, prog) = &KINDS[k1];
                let good = enc_payload(&a);
                let mlen = min_len(prog);
                let bad: Option<Vec<u8>> = if mlen > 0 {
                    Some(good[..rng.below(mlen as u64) as usize].to_vec())
                } else {
                    None
                };
                if let Some(badp) = bad {
                    let recs = vec![enc_avp(&mt), enc_record(1, 6 + badp.len(), 0, *t, &badp), enc_avp(&b), enc_avp(&pick(rng, (k1 + k2) % (nk + 1)))];
                    let body: Vec<u8> = recs.iter().flatten().copied().collect();
                    let w = ctl(&body, rng);
                    out.emit(json!({"op": "ctl_records", "in": bytes_json(&w), "recs": recs.iter().map(|r| bytes_json(r)).collect::<Vec<_>>()}));
                    out.emit(json!({"op": "decode", "in": bytes_json(&w), "opts": [true, true, true], "entry": "validate", "rdr": "slice"}));
                }
            }
        }
    }
}

/// every payload octet of a valid AVP of every kind set to each of a list of values (thorough: all 256):
/// the per-type readers must depend on each octet exactly as the specification says
pub fn suite_octet_sweep(out: &mut Out, tier: &str, rng: &mut Rng) {
    let mut quick_vals: Vec<u8> = (0..=16u8).collect();
    quick_vals.extend([0x3f, 0x40, 0x7f, 0x80, 0xbf, 0xc0, 0xc2, 0xe0, 0xed, 0xf0, 0xf4, 0xf5, 0xfe, 0xff]);
    let all: Vec<u8> = (0..=255u8).collect();
    let vals: &[u8] = if tier == "thorough" { &all } else { &quick_vals };
    for (ki, (t, _, _)) in KINDS.iter().enumerate() {
        for rep in 0..2 {
            let a = gen_avp_kind(rng, ki, if rep == 0 { 3 } else { 7 });
            let p = enc_payload(&a);
            for i in 0..p.len().min(24) {
                for &v in vals {
                    if p[i] == v {
                        continue;
                    }
                    let mut q = p.clone();
                    q[i] = v;
                    out.emit(json!({"op": "decode_payload", "t": t, "in": bytes_json(&q), "rdr": "slice"}));
                    // ... and with everything behind the fixed part cut off (optional parts absent)
                    let m = min_len(KINDS[ki].2);
                    if i < m && m < q.len() {
                        out.emit(json!({"op": "decode_payload", "t": t, "in": bytes_json(&q[..m]), "rdr": "slice"}));
                        if m + 1 < q.len() {
                            out.emit(json!({"op": "decode_payload", "t": t, "in": bytes_json(&q[..m + 1]), "rdr": "slice"}));
                        }
                    }
                    if (i + v as usize + rep) % 8 == 0 {
                        // the same record inside a control message, through the whole chain
                        let mut body = enc_avp(&gen_message_type(rng));
                        body.extend(enc_record(1, 6 + q.len(), 0, *t, &q));
                        let w = enc_control_raw(flag_word(true, true, true, false, false, 2), None, [1, 2, 3, 4], &body);
                        out.emit(json!({"op": "chain", "in": bytes_json(&w), "opts": [true, true, true]}));
                    }
                }
            }
        }
    }
}

// ---------------------------------------------------------------------------------------------
// content classes that "tidying" code mangles

fn special_texts() -> Vec<Vec<u8>> {
    let atoms: Vec<&str> = vec![
        "\u{feff}", " ", "\t", "\n", "\r\n", "\r", "\0", "\u{a0}", "\u{200b}", "\u{2028}", "\u{85}", "\u{1}", "\u{7f}",
        "\u{fffd}", "\u{d7ff}", "\u{e000}", "\u{ffff}", "\u{10000}", "\u{10ffff}", "\u{200f}", "\u{301}",
        ".", "-", "_", "/", ":", "@", ",", ";", "#", "*", "+", "\"", "'",
    ];
    let mut out: Vec<Vec<u8>> = Vec::new();
    for a in atoms.iter() {
        for t in [a.to_string(), format!("{a}ab"), format!("ab{a}"), format!("a{a}b"), format!("{a}{a}"), format!("{a}ab{a}"),
                  format!("ab{a}{a}"), format!("{a}{a}ab"), format!("ab{a}{a}{a}"), format!("a{a}b{a}c")] {
            out.push(t.into_bytes());
        }
    }
    for w in [
        "ABC", "abc", "Abc", "Stra\u{df}e", "STRASSE", "\u{130}", "i\u{307}", "\u{1c5}", "e\u{301}", "\u{e9}", "\u{fb01}", "A\u{30a}", "\u{c5}",
        "\u{ff11}\u{ff12}\u{ff13}", "+46-70 123", "0046701234567", "00", "+", "#*", "1234567890123456", "%41", "%00", "\\n", "\\0", "&amp;",
        "<a>", "\"q\"", "'", "a;b", "a,b", "a=b", "a/b", "..", "a\\b", "$x", "{}", "null", "true", "0", "-1", "1e3", "0x10",
    ] {
        out.push(w.as_bytes().to_vec());
    }
    out
}

/// long texts of w-octet characters behind r ASCII octets: for every cap K some text has a character
/// straddling octet offset K
fn straddling_texts(total: usize) -> Vec<Vec<u8>> {
    let mut out = Vec::new();
    for (w, ch) in [(2usize, "\u{e9}"), (3, "\u{20ac}"), (4, "\u{1f600}")] {
        for r in 0..w {
            let mut t = "a".repeat(r);
            while t.len() + w <= total {
                t.push_str(ch);
            }
            out.push(t.into_bytes());
        }
    }
    out
}

fn text_avp(kind: &str, text: &[u8], rng: &mut Rng) -> Value {
    match kind {
        "ResultCode" => json!({"k": "ResultCode", "f": [rng.range(0, 11), ["Generic"], [bytes_json(text)]]}),
        "Q931CauseCode" => json!({"k": "Q931CauseCode", "f": [rng.u16(), rng.u8(), [bytes_json(text)]]}),
        k => json!({"k": k, "f": [bytes_json(text)]}),
    }
}

/// a plaintext (original-length subfield, payload, zero padding to 16) for the `reveal` operation
fn plain_for(a: &Value) -> (u16, Vec<u8>) {
    let p = enc_payload(a);
    let mut plain = ((6 + p.len()) as u16).to_be_bytes().to_vec();
    plain.extend_from_slice(&p);
    while plain.len() % 16 != 0 {
        plain.push(0);
    }
    (avp_type(a), plain)
}

/// texts with byte order marks, line ends, blanks, NULs, case / normalisation pairs, digits and punctuation,
/// and long texts with multi-octet characters at every alignment, in every text-carrying AVP kind (and the
/// short ones in octet-string kinds too): encoded, decoded, chained, hidden and revealed
pub fn suite_text_classes(out: &mut Out, tier: &str, rng: &mut Rng) {
    let text_kinds = ["ResultCode", "VendorName", "Q931CauseCode", "CalledNumber", "CallingNumber", "SubAddress"];
    let octet_kinds = ["HostName", "Challenge", "ProxyAuthenName", "PrivateGroupId", "InitialReceivedLcpConfReq", "ProxyAuthenResponse"];
    let specials = special_texts();
    let mut n = 0usize;
    for (ti, t) in specials.iter().enumerate() {
        for (ki, k) in text_kinds.iter().chain(octet_kinds.iter()).enumerate() {
            if ki > text_kinds.len() && tier != "thorough" && (ti + ki) % 3 != 0 {    // (Host Name always)
                continue;
            }
            let a = text_avp(k, t, rng);
            n += 1;
            out.emit(json!({"op": "roundtrip", "kind": "avp", "v": a}));
            out.emit(json!({"op": "encode", "kind": "avp", "v": a, "prefix": bytes_json(&rng.rbytes(0, 3)), "wr": if n % 2 == 0 { "vec" } else { "mon" }}));
            let m = json!({"k": "Control", "length": 0, "tunnel_id": rng.u16(), "session_id": rng.u16(), "ns": rng.u16(), "nr": rng.u16(),
                           "avps": [gen_message_type(rng), a]});
            let wire = enc_control(&m);
            out.emit(json!({"op": "decode", "in": bytes_json(&wire), "opts": [true, true, true], "entry": "validate", "rdr": "slice"}));
            if n % 2 == 0 {
                out.emit(json!({"op": "chain", "in": bytes_json(&wire), "opts": [true, true, true]}));
            }
            if n % 16 == 0 || (tier == "thorough" && n % 4 == 0) {
                let (ty, plain) = plain_for(&a);
                out.emit(json!({"op": "reveal", "t": ty, "plain": bytes_json(&plain), "secret": bytes_json(&secret_of(rng)), "rv": bytes_json(&rng.bytes(4))}));
            }
            if n % 40 == 0 || (tier == "thorough" && n % 8 == 0) {
                out.emit(json!({"op": "hide_reveal", "v": a, "secret": bytes_json(&secret_of(rng)), "rv": bytes_json(&rng.bytes(4)),
                                "lp": bytes_json(&rng.rbytes(0, 9)), "ap": bytes_json(&rng.bytes(16))}));
            }
        }
    }
    // every C0 and C1 control, the bidirectional / invisible formatting characters and other code points that
    // "sanitising" code singles out, alone / inside / at the end of a short text, in every text kind and Host Name
    let mut cps: Vec<u32> = (0x00u32..=0x1f).chain(0x7f..=0x9f).collect();
    cps.extend([0xad, 0x34f, 0x61c, 0x115f, 0x180e, 0x200b, 0x200c, 0x200d, 0x200e, 0x200f, 0x2028, 0x2029, 0x202a, 0x202b, 0x202c, 0x202d, 0x202e,
                0x2060, 0x2066, 0x2067, 0x2068, 0x2069, 0x3000, 0xfe0f, 0xfeff, 0xfff9, 0xfffa, 0xfffb, 0xfffc, 0xfffd, 0xe0001, 0xe0020, 0xe007f, 0x1f600]);
    for (ci, cp) in cps.iter().enumerate() {
        let ch = char::from_u32(*cp).unwrap();
        for (fi, t) in [format!("{ch}"), format!("acme{ch}gro.live"), format!("ab{ch}")].iter().enumerate() {
            for (ki, k) in text_kinds.iter().chain(octet_kinds[..1].iter()).enumerate() {
                if tier != "thorough" && (ci + fi + ki) % 2 == 1 {
                    continue;
                }
                let a = text_avp(k, t.as_bytes(), rng);
                out.emit(json!({"op": "roundtrip", "kind": "avp", "v": a}));
                let m = json!({"k": "Control", "length": 0, "tunnel_id": 1, "session_id": 2, "ns": 3, "nr": 4, "avps": [gen_message_type(rng), a]});
                let wire = enc_control(&m);
                out.emit(json!({"op": "decode", "in": bytes_json(&wire), "opts": [true, true, true], "entry": "validate", "rdr": "slice"}));
                out.emit(json!({"op": "chain", "in": bytes_json(&wire), "opts": [true, true, true]}));
            }
        }
    }
    // names that real peers send, plain and with the endings C strings and line-oriented tools leave behind
    for name in ["Microsoft", "Cisco Systems, Inc.", "Juniper Networks", "xl2tpd.org", "Linux", "MikroTik", "accel-ppp", "FreeBSD MPD", "Ubiquiti", "Apple",
                 "Windows", "Katalix Systems Ltd. Linux-3.2", "lac.example.com", "LNS", "localhost"] {
        for end in ["", "\0", "\0\0", "\0\0\0", " ", "\r\n", "\n", ".", "..", "\u{feff}"] {
            let t = format!("{name}{end}");
            for k in ["VendorName", "HostName", "CalledNumber", "ProxyAuthenName", "PrivateGroupId"] {
                let a = text_avp(k, t.as_bytes(), rng);
                out.emit(json!({"op": "roundtrip", "kind": "avp", "v": a}));
                let m = json!({"k": "Control", "length": 0, "tunnel_id": 1, "session_id": 2, "ns": 3, "nr": 4, "avps": [gen_message_type(rng), a]});
                out.emit(json!({"op": "chain", "in": bytes_json(&enc_control(&m)), "opts": [true, true, true]}));
            }
        }
    }
    for total in [70usize, 140, 300, 520, 1000] {
        for (i, t) in straddling_texts(total).iter().enumerate() {
            for (ki, k) in text_kinds.iter().enumerate() {
                if tier != "thorough" && (i + ki + total) % 2 == 1 {
                    continue;
                }
                let a = text_avp(k, t, rng);
                out.emit(json!({"op": "roundtrip", "kind": "avp", "v": a}));
                let (ty, plain) = plain_for(&a);
                out.emit(json!({"op": "reveal", "t": ty, "plain": bytes_json(&plain), "secret": bytes_json(&secret_of(rng)), "rv": bytes_json(&rng.bytes(4))}));
                if (i + ki) % 6 == 0 {
                    let m = json!({"k": "Control", "length": 0, "tunnel_id": 1, "session_id": 2, "ns": 3, "nr": 4, "avps": [gen_message_type(rng), a]});
                    out.emit(json!({"op": "chain", "in": bytes_json(&enc_control(&m)), "opts": [true, true, true]}));
                }
            }
        }
    }
    // secrets, random vectors and paddings with "textual" peculiarities, on one- and several-block values
    let secrets: Vec<Vec<u8>> = vec![
        b"\xef\xbb\xbfsecret".to_vec(), b"secret\n".to_vec(), b"secret\r\n".to_vec(), b" secret".to_vec(), b"secret ".to_vec(),
        b"\0secret".to_vec(), b"secret\0".to_vec(), b"SECRET".to_vec(), b"secret".to_vec(), vec![0u8; 16], vec![0xffu8; 16], vec![b'a'; 64],
        vec![b'a'; 65], b"\xef\xbb\xbf".to_vec(), b"\n".to_vec(), b"pass word".to_vec(), "p\u{e4}ss".as_bytes().to_vec(),
    ];
    for (i, sec) in secrets.iter().enumerate() {
        for big in [false, true] {
            let a = if big { host(15 + i * 3, rng) } else { gen_avp_kind(rng, (i * 7) % KINDS.len(), 6) };
            let rv = match i % 4 { 0 => vec![0u8; 4], 1 => vec![0xff; 4], _ => rng.bytes(4) };
            let lp = match i % 3 { 0 => vec![], 1 => vec![0u8; 5], _ => rng.rbytes(1, 20) };
            let ap = match i % 3 { 0 => vec![0u8; 16], 1 => vec![0xffu8; 16], _ => rng.bytes(16) };
            out.emit(json!({"op": "hide_reveal", "v": a, "secret": bytes_json(sec), "rv": bytes_json(&rv), "lp": bytes_json(&lp), "ap": bytes_json(&ap)}));
        }
    }
}

/// an LCP Configure-Request as RFC 1661 lays it out: code 1, identifier, length = whole packet, options as TLVs
fn gen_lcp(rng: &mut Rng, nest: bool) -> Vec<u8> {
    let mut opts: Vec<u8> = Vec::new();
    for _ in 0..rng.range(0, 4) {
        let ty = *rng.pick(&[1u8, 2, 3, 5, 7, 8]);
        let body = rng.rbytes(0, 6);
        opts.push(ty);
        opts.push(2 + body.len() as u8);
        opts.extend_from_slice(&body);
    }
    if nest {
        // options that again look like a whole Configure-Request
        let inner = gen_lcp(rng, false);
        opts = inner;
    }
    let total = 4 + opts.len();
    let mut p = vec![1u8, rng.u8(), (total >> 8) as u8, total as u8];
    p.extend_from_slice(&opts);
    p
}

/// messages as RFC 2661 s6 composes them (the AVPs each message type carries, mandatory ones always, optional
/// ones in random subsets), with values drawn from small pools so that different fields often hold EQUAL
/// values (Tx = Rx speed, assigned id = header id, min = max bps ...) and with LCP-shaped proxy payloads
pub fn suite_rfc_messages(out: &mut Out, tier: &str, rng: &mut Rng) {
    let comp: &[(&str, &[&str], &[&str])] = &[
        ("StartControlConnectionRequest", &["ProtocolVersion", "HostName", "FramingCapabilities", "AssignedTunnelId"],
         &["BearerCapabilities", "ReceiveWindowSize", "Challenge", "TieBreaker", "FirmwareRevision", "VendorName"]),
        ("StartControlConnectionReply", &["ProtocolVersion", "FramingCapabilities", "HostName", "AssignedTunnelId"],
         &["BearerCapabilities", "FirmwareRevision", "VendorName", "ReceiveWindowSize", "Challenge", "ChallengeResponse"]),
        ("StartControlConnectionConnected", &[], &["ChallengeResponse"]),
        ("StopControlConnectionNotification", &["AssignedTunnelId", "ResultCode"], &[]),
        ("Hello", &[], &[]),
        ("OutgoingCallRequest", &["AssignedSessionId", "CallSerialNumber", "MinimumBps", "MaximumBps", "BearerType", "FramingType", "CalledNumber"], &["SubAddress"]),
        ("OutgoingCallReply", &["AssignedSessionId"], &["PhysicalChannelId"]),
        ("OutgoingCallConnected", &["TxConnectSpeed", "FramingType"], &["RxConnectSpeed", "SequencingRequired"]),
        ("IncomingCallRequest", &["AssignedSessionId", "CallSerialNumber"], &["BearerType", "PhysicalChannelId", "CallingNumber", "CalledNumber", "SubAddress"]),
        ("IncomingCallReply", &["AssignedSessionId"], &[]),
        ("IncomingCallConnected", &["TxConnectSpeed", "FramingType"],
         &["InitialReceivedLcpConfReq", "LastSentLcpConfReq", "LastReceivedLcpConfReq", "ProxyAuthenType", "ProxyAuthenName", "ProxyAuthenChallenge",
           "ProxyAuthenId", "ProxyAuthenResponse", "PrivateGroupId", "RxConnectSpeed", "SequencingRequired"]),
        ("CallDisconnectNotify", &["ResultCode", "AssignedSessionId"], &["Q931CauseCode"]),
        ("WanErrorNotify", &["CallErrors"], &[]),
        ("SetLinkInfo", &["Accm"], &[]),
    ];
    let reps = counts(tier, 14, 300);
    for (mt, mand, opt) in comp.iter() {
        for rep in 0..reps {
            // pools: every 16-bit / 32-bit field takes one of two values
            let p16 = [rng.u16(), rng.u16()];
            let p32 = [rng.bytes(4), rng.bytes(4)];
            let ptext = [gen_utf8(rng, 5), gen_utf8(rng, 5)];
            let mut names: Vec<&str> = mand.to_vec();
            for o in opt.iter() {
                let take = match rep { 0 => true, 1 => false, _ => rng.bool() };
                if take {
                    names.push(o);
                }
            }
            if rep % 5 == 4 {
                names.push("RandomVector");
            }
            let mut avps = vec![json!({"k": "MessageType", "f": [mt]})];
            for nme in names {
                let ki = KINDS.iter().position(|k| k.1 == nme).unwrap();
                let mut a = gen_avp_kind(rng, ki, 8);
                let prog = KINDS[ki].2;
                let mut fi = 0usize;
                for o in prog.iter() {
                    match o {
                        Op::U16 => { a["f"][fi] = json!(p16[rng.below(2) as usize]); fi += 1; }
                        Op::Fix(4) => { a["f"][fi] = bytes_json(&p32[rng.below(2) as usize]); fi += 1; }
                        Op::Utf8 => { a["f"][fi] = bytes_json(&ptext[rng.below(2) as usize]); fi += 1; }
                        Op::Skip(_) => {}
                        Op::OptErr => { fi += 2; }
                        _ => { fi += 1; }
                    }
                }
                if nme.ends_with("LcpConfReq") {
                    a["f"][0] = bytes_json(&gen_lcp(rng, rep % 3 == 2));
                }
                if BITMASK_KINDS.contains(&nme) {
                    // the defined bits, as real peers send them
                    a["f"][0] = bytes_json(&[0, 0, 0, *rng.pick(&[0x40u8, 0x80, 0xc0])]);
                }
                avps.push(a);
            }
            let m = json!({"k": "Control", "length": 0, "tunnel_id": p16[0], "session_id": p16[rng.below(2) as usize],
                           "ns": p16[1], "nr": p16[rng.below(2) as usize], "avps": avps});
            out.emit(json!({"op": "roundtrip", "kind": "msg", "v": m}));
            let wire = enc_control(&m);
            if rep % 2 == 0 {
                out.emit(json!({"op": "chain", "in": bytes_json(&wire), "opts": [true, true, true]}));
            } else {
                out.emit(json!({"op": "decode", "in": bytes_json(&wire), "opts": [true, true, true], "entry": "validate", "rdr": "slice"}));
            }
            if rep % 4 == 3 {
                out.emit(json!({"op": "encode", "kind": "msg", "v": m, "prefix": bytes_json(&rng.rbytes(1, 40)), "wr": "mon"}));
            }
        }
    }
    // coincidences: the same AVP twice (equal values), octet strings that are themselves AVP records or whole
    // messages, 16-bit fields equal to the AVP / message length or the AVP count, data payloads that look like
    // control messages or PPP frames
    for rep in 0..counts(tier, 40, 1500) {
        let ki = rng.below(KINDS.len() as u64) as usize;
        let a = gen_avp_kind(rng, ki, 8);
        let inner_avp = enc_avp(&gen_avp(rng, 6));
        let inner_msg = enc_control(&gen_control(rng, 2, 5));
        let octet_kind = *rng.pick(&["HostName", "Challenge", "ProxyAuthenName", "ProxyAuthenChallenge", "ProxyAuthenResponse", "PrivateGroupId",
                                     "InitialReceivedLcpConfReq", "LastSentLcpConfReq", "LastReceivedLcpConfReq"]);
        let nested = json!({"k": octet_kind, "f": [bytes_json(if rep % 2 == 0 { &inner_avp } else { &inner_msg })]});
        let mut avps = vec![gen_message_type(rng), a.clone(), a.clone(), nested];
        // a 16-bit field holding a length / count of this very message
        let count = avps.len() + 1;
        let body_len: usize = avps.iter().map(|x| enc_avp(x).len()).sum::<usize>() + 8;
        let v16 = *rng.pick(&[8usize, count, 12 + body_len, body_len, 6]);
        let k16 = *rng.pick(&["AssignedTunnelId", "AssignedSessionId", "ReceiveWindowSize", "FirmwareRevision"]);
        avps.push(json!({"k": k16, "f": [v16]}));
        let m = json!({"k": "Control", "length": 0, "tunnel_id": v16, "session_id": count, "ns": body_len % 65536, "nr": v16, "avps": avps});
        out.emit(json!({"op": "roundtrip", "kind": "msg", "v": m}));
        out.emit(json!({"op": "chain", "in": bytes_json(&enc_control(&m)), "opts": [true, true, true]}));
        // data messages carrying a control message, a PPP / LCP frame, or octets that look like a header
        let payload = match rep % 4 {
            0 => inner_msg.clone(),
            1 => { let mut p = vec![0xffu8, 0x03, 0xc0, 0x21]; p.extend(gen_lcp(rng, false)); p }
            2 => { let mut p = vec![0x13u8, 0x20, 0, 12, 0, 0, 0, 0, 0, 0, 0, 0]; p.extend(rng.rbytes(0, 6)); p }
            _ => vec![0u8; 1 + (rep % 7) as usize],
        };
        let has_s = rep % 3 == 0;
        let total = 2 + 2 + 4 + if has_s { 4 } else { 0 } + payload.len();
        let d = json!({"k": "Data", "prio": rep % 5 == 0, "length": [total], "tunnel_id": total, "session_id": payload.len(),
                       "ns_nr": if has_s { json!([[total, payload.len()]]) } else { json!([]) }, "offset": [], "data": bytes_json(&payload)});
        out.emit(json!({"op": "roundtrip", "kind": "msg", "v": d}));
    }
    // data messages carrying PPP frames of every control protocol and code, with and without the ff 03 prefix
    for proto in [[0xc0u8, 0x21], [0x80, 0x21], [0xc0, 0x23], [0xc2, 0x23], [0x00, 0x21], [0x00, 0x57], [0x80, 0xfd], [0x80, 0x57]] {
        for code in 0u8..=16 {
            for prefix in [false, true] {
                let mut payload: Vec<u8> = if prefix { vec![0xff, 0x03] } else { vec![] };
                payload.extend_from_slice(&proto);
                let body = rng.rbytes(0, 8);
                let l = 4 + body.len();
                payload.extend_from_slice(&[code, rng.u8(), (l >> 8) as u8, l as u8]);
                payload.extend_from_slice(&body);
                let shape = (code as usize + prefix as usize) % 4;
                let has_len = shape & 1 == 1;
                let has_s = shape & 2 == 2;
                let total = 2 + if has_len { 2 } else { 0 } + 4 + if has_s { 4 } else { 0 } + payload.len();
                for prio in [false, true] {
                    let d = json!({"k": "Data", "prio": prio, "length": if has_len { json!([total]) } else { json!([]) }, "tunnel_id": rng.u16(), "session_id": rng.u16(),
                                   "ns_nr": if has_s { json!([[rng.u16(), rng.u16()]]) } else { json!([]) }, "offset": [], "data": bytes_json(&payload)});
                    out.emit(json!({"op": "roundtrip", "kind": "msg", "v": d}));
                }
            }
        }
    }
    // data messages carrying IPv4 / IPv6 packets behind a PPP header (with and without ff 03) whose own length field
    // is smaller than, equal to and larger than the octets present
    for v6 in [false, true] {
        for prefix in [false, true] {
            for delta in [-9i64, -1, 0, 1, 20] {
                for shape in 0..4usize {
                    let body_len = 28usize + (shape * 7);
                    let mut ip: Vec<u8> = if v6 {
                        let mut h = vec![0x60u8, 0, 0, 0, 0, 0, 17, 64];
                        h.extend(rng.bytes(32));
                        h
                    } else {
                        let mut h = vec![0x45u8, 0, 0, 0, 0x12, 0x34, 0x40, 0, 64, 17, 0, 0];
                        h.extend(rng.bytes(8));
                        h
                    };
                    ip.extend(rng.bytes(body_len));
                    let declared = if v6 { (ip.len() as i64 - 40 + delta).max(0) as u16 } else { (ip.len() as i64 + delta).max(0) as u16 };
                    if v6 { ip[4..6].copy_from_slice(&declared.to_be_bytes()); } else { ip[2..4].copy_from_slice(&declared.to_be_bytes()); }
                    let mut payload: Vec<u8> = if prefix { vec![0xff, 0x03] } else { vec![] };
                    payload.extend_from_slice(if v6 { &[0x00, 0x57] } else { &[0x00, 0x21] });
                    payload.extend_from_slice(&ip);
                    let has_len = shape & 1 == 1;
                    let has_s = shape & 2 == 2;
                    let total = 2 + if has_len { 2 } else { 0 } + 4 + if has_s { 4 } else { 0 } + payload.len();
                    let d = json!({"k": "Data", "prio": false, "length": if has_len { json!([total]) } else { json!([]) }, "tunnel_id": rng.u16(), "session_id": rng.u16(),
                                   "ns_nr": if has_s { json!([[rng.u16(), rng.u16()]]) } else { json!([]) }, "offset": [], "data": bytes_json(&payload)});
                    out.emit(json!({"op": "roundtrip", "kind": "msg", "v": d}));
                }
            }
        }
    }
    // every message type with ALL the AVPs it may carry, in three random orders
    for (mt, mand, opt) in comp.iter() {
        for _ in 0..3 {
            let mut names: Vec<&str> = mand.iter().chain(opt.iter()).copied().collect();
            for i in (1..names.len()).rev() {
                let j = rng.below(i as u64 + 1) as usize;
                names.swap(i, j);
            }
            let mut avps = vec![json!({"k": "MessageType", "f": [mt]})];
            for nme in names {
                let ki = KINDS.iter().position(|k| k.1 == nme).unwrap();
                let mut a = gen_avp_kind(rng, ki, 8);
                if nme.ends_with("LcpConfReq") {
                    a["f"][0] = bytes_json(&gen_lcp(rng, false));
                }
                avps.push(a);
            }
            let m = json!({"k": "Control", "length": 0, "tunnel_id": rng.u16(), "session_id": rng.u16(), "ns": rng.u16(), "nr": rng.u16(), "avps": avps});
            out.emit(json!({"op": "roundtrip", "kind": "msg", "v": m}));
            out.emit(json!({"op": "chain", "in": bytes_json(&enc_control(&m)), "opts": [true, true, true]}));
        }
    }
    // LCP-shaped payloads alone, in the three kinds that carry them
    for _ in 0..counts(tier, 30, 1000) {
        for k in ["InitialReceivedLcpConfReq", "LastSentLcpConfReq", "LastReceivedLcpConfReq", "ProxyAuthenChallenge"] {
            let nest = rng.chance(1, 3);
            let a = json!({"k": k, "f": [bytes_json(&gen_lcp(rng, nest))]});
            out.emit(json!({"op": "roundtrip", "kind": "avp", "v": a}));
            let m = json!({"k": "Control", "length": 0, "tunnel_id": 1, "session_id": 2, "ns": 3, "nr": 4, "avps": [gen_message_type(rng), a]});
            out.emit(json!({"op": "chain", "in": bytes_json(&enc_control(&m)), "opts": [true, true, true]}));
        }
    }
}

/// the header of ONE record over the product of its fields -- flag bits, vendor id, attribute type, declared
/// length (6..10 and the exact / short / long payload of known kinds) -- as the first record of a control
/// message, as the second one behind a Message Type, and as a bare list
pub fn suite_record_product(out: &mut Out, tier: &str, rng: &mut Rng) {
    // attribute numbers that later RFCs assign (40..=110, e.g. 46 PPP Disconnect Cause) and the unassigned 20,
    // behind every message type, M bit clear / set, with and without a payload: still unknown to this codec
    for t in (40u16..=110).chain([20]) {
        for (mi, (_, mt)) in MSG_TYPES.iter().enumerate() {
            for f in [0u8, 1] {
                let _ = (tier, mi);
                let p = if (t + f as u16) % 3 == 0 { vec![] } else { rng.rbytes(1, 6) };
                let recs = vec![enc_avp(&json!({"k": "MessageType", "f": [mt]})), enc_record(f, 6 + p.len(), 0, t, &p), enc_avp(&gen_avp(rng, 6))];
                let body: Vec<u8> = recs.iter().flatten().copied().collect();
                let w = enc_control_raw(flag_word(true, true, true, false, false, 2), None, [1, 2, 3, 4], &body);
                out.emit(json!({"op": "ctl_records", "in": bytes_json(&w), "recs": recs.iter().map(|r| bytes_json(r)).collect::<Vec<_>>()}));
                out.emit(json!({"op": "decode", "in": bytes_json(&w), "opts": [true, true, true], "entry": "validate", "rdr": "slice"}));
            }
        }
    }
    // vendor-specific records of well-known enterprise numbers with every attribute type 0..=255 (thorough: ..=1023),
    // M / H clear and set: always one UnsupportedVendorId, never skipped
    for vendor in [9u16, 43, 311, 2636, 3561, 10415, 65535] {
        let top = if tier == "thorough" { 1023u16 } else { 255 };
        for t in 0..=top {
            let f = [0u8, 1, 2, 3][(t as usize + vendor as usize) % 4];
            let p = if t % 3 == 0 { vec![] } else { rng.rbytes(1, 5) };
            let recs = vec![enc_avp(&gen_message_type(rng)), enc_record(f, 6 + p.len(), vendor, t, &p), enc_avp(&gen_avp(rng, 5))];
            let body: Vec<u8> = recs.iter().flatten().copied().collect();
            let w = enc_control_raw(flag_word(true, true, true, false, false, 2), None, [1, 2, 3, 4], &body);
            out.emit(json!({"op": "ctl_records", "in": bytes_json(&w), "recs": recs.iter().map(|r| bytes_json(r)).collect::<Vec<_>>()}));
        }
    }
    let flags: &[u8] = &[0, 1, 2, 3, 0x3d, 0x3e];
    let types: Vec<u16> = if tier == "thorough" { (0..=41u16).chain([255, 256, 65535]).collect() } else { vec![0, 1, 3, 4, 7, 12, 13, 18, 19, 20, 26, 29, 34, 36, 39, 40, 65535] };
    let ctl = |body: &[u8]| enc_control_raw(flag_word(true, true, true, false, false, 2), None, [1, 2, 3, 4], body);
    for &f in flags {
        for vendor in [0u16, 9] {
            for &t in types.iter() {
                let mut lens: Vec<usize> = vec![0, 1, 2, 3, 4];
                if let Some((_, _, prog)) = kind_by_type(t) {
                    let m = min_len(prog);
                    for l in [m.saturating_sub(1), m, m + 1, 16, 17] {
                        if !lens.contains(&l) {
                            lens.push(l);
                        }
                    }
                }
                for n in lens {
                    let p: Vec<u8> = match kind_by_type(t) {
                        Some(_) if n >= 2 && rng.bool() => { let mut v = vec![0u8, 1]; v.extend(rng.bytes(n - 2)); v }
                        _ => rng.bytes(n),
                    };
                    let rec = enc_record(f, 6 + n, vendor, t, &p);
                    let pos = (f as usize + vendor as usize + t as usize + n) % 3;
                    if tier == "thorough" || pos == 0 {
                        let mut b = rec.clone();
                        b.extend(enc_avp(&gen_avp(rng, 6)));
                        out.emit(json!({"op": "decode", "in": bytes_json(&ctl(&b)), "opts": [true, true, true], "entry": "validate", "rdr": "slice"}));
                        out.emit(json!({"op": "decode", "in": bytes_json(&ctl(&rec)), "opts": [false, false, false], "entry": "validate", "rdr": "slice"}));
                    }
                    if tier == "thorough" || pos == 1 {
                        let mt = enc_avp(&gen_message_type(rng));
                        let recs = vec![mt.clone(), rec.clone(), enc_avp(&gen_avp(rng, 6))];
                        let body: Vec<u8> = recs.iter().flatten().copied().collect();
                        out.emit(json!({"op": "ctl_records", "in": bytes_json(&ctl(&body)), "recs": recs.iter().map(|r| bytes_json(r)).collect::<Vec<_>>()}));
                    }
                    if tier == "thorough" || pos == 2 {
                        out.emit(json!({"op": "decode_avps", "in": bytes_json(&rec), "rdr": "slice"}));
                    }
                }
            }
        }
    }
}

/// small value spaces taken whole, and two-way products the protocol gives meaning to: Result Code x Error Code x
/// message, Protocol Version x revision, every message type x every AVP kind, zero / equal header ids per
/// message type, Ns/Nr relations of data messages, Q.931 cause x message
pub fn suite_value_products(out: &mut Out, tier: &str, rng: &mut Rng) {
    let ctl_of = |avps: Vec<Value>, ids: [u16; 4]| json!({"k": "Control", "length": 0, "tunnel_id": ids[0], "session_id": ids[1], "ns": ids[2], "nr": ids[3], "avps": avps});
    let mut emit_avp = |out: &mut Out, a: Value, n: usize, rng: &mut Rng| {
        out.emit(json!({"op": "roundtrip", "kind": "avp", "v": a}));
        out.emit(json!({"op": "decode_payload", "t": avp_type(&a), "in": bytes_json(&enc_payload(&a)), "rdr": "slice"}));
        if n % 3 == 0 {
            let m = json!({"k": "Control", "length": 0, "tunnel_id": 1, "session_id": 2, "ns": 3, "nr": 4, "avps": [gen_message_type(rng), a]});
            out.emit(json!({"op": "chain", "in": bytes_json(&enc_control(&m)), "opts": [true, true, true]}));
        }
    };
    // Result Code: code x (no error | error type x (no message | message))
    let err_names: Vec<&str> = ERR_TYPES.iter().map(|e| e.1).collect();
    let mut n = 0usize;
    let codes: Vec<u16> = (0..=16u16).chain([255, 256, 65535]).collect();
    for &code in codes.iter() {
        n += 1;
        emit_avp(out, json!({"k": "ResultCode", "f": [code, [], []]}), n, rng);
        for e in err_names.iter() {
            for msg in [None, Some("x"), Some("Try another LNS")] {
                n += 1;
                let a = json!({"k": "ResultCode", "f": [code, [e], opt_json(msg.map(|m| bytes_json(m.as_bytes())))]});
                emit_avp(out, a, n, rng);
            }
        }
    }
    // Protocol Version x revision, Q.931 cause code x cause message x advisory
    let small: Vec<u64> = (0..=16u64).chain([127, 128, 255]).collect();
    for &v in small.iter() {
        for &r in small.iter() {
            n += 1;
            emit_avp(out, json!({"k": "ProtocolVersion", "f": [v, r]}), n, rng);
        }
    }
    for &c in [0u64, 1, 16, 17, 31, 127, 128, 255, 256, 65535].iter() {
        for &mm in small.iter() {
            for adv in [None, Some("a"), Some("call rejected")] {
                n += 1;
                emit_avp(out, json!({"k": "Q931CauseCode", "f": [c, mm, opt_json(adv.map(|m| bytes_json(m.as_bytes())))]}), n, rng);
            }
        }
    }
    // every message type followed by every AVP kind (and a hidden AVP); header ids zero / equal / distinct
    for (mi, (_, mt)) in MSG_TYPES.iter().enumerate() {
        for k in 0..=KINDS.len() {
            let a = if k < KINDS.len() { gen_avp_kind(rng, k, 6) } else { gen_hidden(rng, 16) };
            let x = rng.u16();
            let ids = match (mi + k) % 5 {
                0 => [0, 0, 0, 0],
                1 => [x, 0, 0, 0],
                2 => [x, x, x, x],
                3 => [0, x, 1, 0],
                _ => [rng.u16(), rng.u16(), rng.u16(), rng.u16()],
            };
            let m = ctl_of(vec![json!({"k": "MessageType", "f": [mt]}), a], ids);
            out.emit(json!({"op": "roundtrip", "kind": "msg", "v": m}));
            if (mi + k) % 4 == 0 || tier == "thorough" {
                out.emit(json!({"op": "chain", "in": bytes_json(&enc_control(&m)), "opts": [true, true, true]}));
            }
        }
    }
    // data messages: Ns / Nr relations, equal ids, both priorities, with and without Length
    let base = [0u16, 1, 255, 256, 32767, 32768, 65534, 65535];
    for &a in base.iter() {
        for rel in 0..6 {
            let b = match rel { 0 => a, 1 => a.wrapping_add(1), 2 => a.wrapping_sub(1), 3 => !a, 4 => a.swap_bytes(), _ => rng.u16() };
            for shape in 0..4usize {
                let data = rng.rbytes(1, 9);
                let has_len = shape & 1 == 1;
                let total = 2 + if has_len { 2 } else { 0 } + 4 + 4 + data.len();
                let d = json!({"k": "Data", "prio": shape & 2 == 2, "length": if has_len { json!([total]) } else { json!([]) },
                               "tunnel_id": if rel % 2 == 0 { a } else { b }, "session_id": b, "ns_nr": [[a, b]], "offset": [], "data": bytes_json(&data)});
                out.emit(json!({"op": "roundtrip", "kind": "msg", "v": d}));
            }
        }
    }
    // 32-bit quantities as real peers send them, alone and in related pairs (min > max, Tx < Rx, equal)
    let nice: [u32; 22] = [0, 1, 300, 1200, 2400, 9600, 14400, 28800, 33600, 56000, 64000, 115200, 128000, 1544000, 2048000, 10_000_000,
                           100_000_000, 1_000_000_000, 0x7fff_ffff, 0x8000_0000, 0xffff_fffe, 0xffff_ffff];
    for (i, &x) in nice.iter().enumerate() {
        for k in ["MinimumBps", "MaximumBps", "TxConnectSpeed", "RxConnectSpeed", "CallSerialNumber", "PhysicalChannelId"] {
            n += 1;
            emit_avp(out, json!({"k": k, "f": [bytes_json(&x.to_be_bytes())]}), n, rng);
        }
        for &y in [nice[(i + 1) % nice.len()], x, nice[(i + 7) % nice.len()]].iter() {
            for (mt, ka, kb) in [("OutgoingCallRequest", "MinimumBps", "MaximumBps"), ("IncomingCallConnected", "TxConnectSpeed", "RxConnectSpeed"),
                                 ("OutgoingCallConnected", "RxConnectSpeed", "TxConnectSpeed")] {
                let m = ctl_of(vec![json!({"k": "MessageType", "f": [mt]}), json!({"k": ka, "f": [bytes_json(&x.to_be_bytes())]}),
                                    json!({"k": "FramingType", "f": [[0, 0, 0, 0x40]]}), json!({"k": kb, "f": [bytes_json(&y.to_be_bytes())]})], [1, 2, 3, 4]);
                out.emit(json!({"op": "roundtrip", "kind": "msg", "v": m}));
                out.emit(json!({"op": "chain", "in": bytes_json(&enc_control(&m)), "opts": [true, true, true]}));
            }
        }
    }
    // three AVPs in every order of a random triple of kinds; message sizes of 0..=70 AVPs
    for _ in 0..counts(tier, 150, 6000) {
        let ks = [rng.below(KINDS.len() as u64 + 1) as usize, rng.below(KINDS.len() as u64 + 1) as usize, rng.below(KINDS.len() as u64 + 1) as usize];
        let vals: Vec<Value> = ks.iter().map(|&k| if k < KINDS.len() { gen_avp_kind(rng, k, 6) } else { gen_hidden(rng, 16) }).collect();
        for perm in [[0usize, 1, 2], [0, 2, 1], [1, 0, 2], [1, 2, 0], [2, 0, 1], [2, 1, 0]] {
            let m = ctl_of(vec![gen_message_type(rng), vals[perm[0]].clone(), vals[perm[1]].clone(), vals[perm[2]].clone()], [rng.u16(), rng.u16(), 0, 0]);
            out.emit(json!({"op": "roundtrip", "kind": "msg", "v": m}));
        }
    }
    for count in 0..=70usize {
        let mut avps = vec![];
        if count > 0 {
            avps.push(gen_message_type(rng));
        }
        for _ in 1..count {
            avps.push(gen_avp(rng, 5));
        }
        let m = ctl_of(avps, [1, 2, 3, 4]);
        out.emit(json!({"op": "roundtrip", "kind": "msg", "v": m}));
        if count % 3 == 0 {
            out.emit(json!({"op": "chain", "in": bytes_json(&enc_control(&m)), "opts": [true, true, true]}));
        }
    }
    // one numeric field at a time through its WHOLE range (65 536 or 256 values): header fields of control and data
    // messages (the caller-supplied control Length included: it must be ignored), every 16-bit and 8-bit AVP field
    {
        let cm = json!({"k": "Control", "length": 0, "tunnel_id": 7, "session_id": 8, "ns": 9, "nr": 10,
                        "avps": [gen_message_type(rng), gen_avp_kind(rng, 7, 5), gen_avp_kind(rng, 9, 5)]});
        for f in ["length", "tunnel_id", "session_id", "ns", "nr"] {
            out.emit(json!({"op": "rt_sweep", "kind": "msg", "v": cm, "path": format!("/{f}"), "lo": 0, "hi": 65535}));
        }
        for shape in 0..2usize {
            let data = rng.rbytes(3, 12);
            let total = 2 + if shape == 1 { 2 } else { 0 } + 4 + 4 + data.len();
            let dm = json!({"k": "Data", "prio": shape == 1, "length": if shape == 1 { json!([total]) } else { json!([]) }, "tunnel_id": 7, "session_id": 8,
                            "ns_nr": [[9, 10]], "offset": [], "data": bytes_json(&data)});
            for p in ["/tunnel_id", "/session_id", "/ns_nr/0/0", "/ns_nr/0/1"] {
                out.emit(json!({"op": "rt_sweep", "kind": "msg", "v": dm, "path": p, "lo": 0, "hi": 65535}));
            }
        }
        for (ki, (_, _, prog)) in KINDS.iter().enumerate() {
            let mut fi = 0usize;
            for o in prog.iter() {
                let hi = match o { Op::U16 => Some(65535u32), Op::U8 => Some(255), _ => None };
                if let Some(hi) = hi {
                    for variant in 0..2 {
                        let mut a = gen_avp_kind(rng, ki, 6);
                        if KINDS[ki].1 == "ResultCode" && variant == 1 {
                            a["f"][1] = json!([]);
                            a["f"][2] = json!([]);
                        } else if variant == 1 {
                            continue;
                        }
                        out.emit(json!({"op": "rt_sweep", "kind": "avp", "v": a, "path": format!("/f/{fi}"), "lo": 0, "hi": hi}));
                    }
                }
                match o {
                    Op::Skip(_) => {}
                    Op::OptErr => fi += 2,
                    _ => fi += 1,
                }
            }
        }
    }
    // Call Errors / ACCM with equal, zero and all-ones counters
    for pat in 0..8usize {
        let w = |i: usize| -> Vec<u8> { match (pat + i) % 4 { 0 => vec![0; 4], 1 => vec![0xff; 4], 2 => vec![0, 0, 0, 1], _ => vec![1, 2, 3, 4] } };
        let same = w(0);
        let ce = json!({"k": "CallErrors", "f": (0..6).map(|i| bytes_json(&if pat < 4 { same.clone() } else { w(i) })).collect::<Vec<_>>()});
        n += 1;
        emit_avp(out, ce, n, rng);
        let accm = json!({"k": "Accm", "f": [bytes_json(&w(0)), bytes_json(&if pat < 4 { w(0) } else { w(1) })]});
        n += 1;
        emit_avp(out, accm, n, rng);
    }
}

/// octets inserted at structural boundaries of a valid message (after the flags, after the header, between
/// AVPs, at the end), with and without the Length field adjusted
fn padded_variants(rng: &mut Rng, base: &[u8]) -> Vec<Vec<u8>> {
    let mut out = Vec::new();
    if base.len() < 12 || base[0] & 1 == 0 {
        return out;
    }
    // boundaries inside a control message: 2 (after flags), 4 (after length), 12 (start of AVP area), each AVP start, end
    let mut bounds = vec![2usize, 4, 12];
    let mut i = 12;
    while i + 6 <= base.len() {
        let n = (((base[i] >> 6) as usize) << 8) | base[i + 1] as usize;
        if n < 6 || i + n > base.len() {
            break;
        }
        i += n;
        bounds.push(i);
    }
    for &at in bounds.iter() {
        for pad in [&[0u8][..], &[0, 0], &[0, 0, 0, 0], &[0xff, 0xff], &[0, 6], &[0, 0, 0, 0, 0, 0]] {
            if rng.chance(1, 2) {
                continue;
            }
            let mut v = base.to_vec();
            v.splice(at..at, pad.iter().copied());
            let mut w = v.clone();
            let l = w.len() as u16;
            w[2..4].copy_from_slice(&l.to_be_bytes());
            out.push(w); // Length adjusted
            out.push(v); // Length as it was
        }
    }
    out
}

/// C14 (and C05): flag bits toggled one at a time on valid, padded and invalid messages, all checks off
pub fn suite_bits(out: &mut Out, tier: &str, rng: &mut Rng) {
    for _ in 0..counts(tier, 12, 400) {
        let base = enc_control(&gen_control(rng, 3, 10));
        out.emit(json!({"op": "decode_bits", "in": bytes_json(&base)}));
        for v in padded_variants(rng, &base) {
            out.emit(json!({"op": "decode_bits", "in": bytes_json(&v)}));
        }
    }
    for _ in 0..counts(tier, 150, 5000) {
        let b = random_message_input_pub(rng);
        out.emit(json!({"op": "decode_bits", "in": bytes_json(&b)}));
    }
    // messages of every kind and with every sort of defect: one AVP of each kind, each attribute number that later
    // protocol versions assign (40..=110), vendor-specific / hidden / truncated records, data messages of every shape
    let ctl = |body: &[u8]| enc_control_raw(flag_word(true, true, true, false, false, 2), None, [1, 2, 3, 4], body);
    for ki in 0..KINDS.len() {
        let mut body = enc_avp(&gen_message_type(rng));
        body.extend(enc_avp(&gen_avp_kind(rng, ki, 8)));
        out.emit(json!({"op": "decode_bits", "in": bytes_json(&ctl(&body))}));
    }
    for t in 40u16..=110 {
        let mut body = enc_avp(&gen_message_type(rng));
        let p = rng.rbytes(0, 6);
        body.extend(enc_record((t % 2) as u8, 6 + p.len(), 0, t, &p));
        out.emit(json!({"op": "decode_bits", "in": bytes_json(&ctl(&body))}));
    }
    for k in 0..12usize {
        let mut body = enc_avp(&gen_message_type(rng));
        match k % 4 {
            0 => body.extend(enc_record(1, 8, 9, 7, &[65, 66])),
            1 => body.extend(enc_avp(&gen_hidden(rng, 16))),
            2 => body.extend(enc_record(1, 7, 0, 9, &[1])),
            _ => body.extend(enc_record(1, 40, 0, 7, &[65])),
        }
        out.emit(json!({"op": "decode_bits", "in": bytes_json(&ctl(&body))}));
    }
    for _ in 0..counts(tier, 16, 300) {
        let d = gen_data(rng, 16);
        out.emit(json!({"op": "decode_bits", "in": bytes_json(&enc_data_from_value(&d, rng))}));
    }
}
