//! Case generators.  Everything is a pure function of (suite, tier, seed).
//!
//! Values are generated directly in the JSON shape of the specification; wire inputs are crafted
//! with a small generator-side encoder (`enc_*` below).  That encoder is NOT an oracle -- verdicts
//! always come from the TLA+ specification -- a mistake in it only makes inputs less interesting.
use crate::util::*;
use serde_json::{json, Value};

#[derive(Clone, Copy, PartialEq)]
pub enum Op {
    U8,
    U16,
    Fix(usize),
    Skip(usize),
    Enum(&'static [(u16, &'static str)]),
    Rest,
    Utf8,
    OptUtf8,
    OptErr,
}
use Op::*;

pub const MSG_TYPES: &[(u16, &str)] = &[
    (1, "StartControlConnectionRequest"),
    (2, "StartControlConnectionReply"),
    (3, "StartControlConnectionConnected"),
    (4, "StopControlConnectionNotification"),
    (6, "Hello"),
    (7, "OutgoingCallRequest"),
    (8, "OutgoingCallReply"),
    (9, "OutgoingCallConnected"),
    (10, "IncomingCallRequest"),
    (11, "IncomingCallReply"),
    (12, "IncomingCallConnected"),
    (14, "CallDisconnectNotify"),
    (15, "WanErrorNotify"),
    (16, "SetLinkInfo"),
];
pub const ERR_TYPES: &[(u16, &str)] = &[
    (0, "Ok"),
    (1, "NoControlConnectionExists"),
    (2, "WrongLength"),
    (3, "OutOfRangeOrBadReserved"),
    (4, "InsufficientResources"),
    (5, "InvalidSessionId"),
    (6, "Generic"),
    (7, "TryAnotherDestination"),
    (8, "UnknownMandatoryAvp"),
];
pub const PROXY_TYPES: &[(u16, &str)] = &[
    (0, "Reserved"),
    (1, "TextualUserNamePasswordExchange"),
    (2, "PppChap"),
    (3, "PppPap"),
    (4, "NoAuthentication"),
    (5, "MicrosoftChapVersion1"),
];

pub const KINDS: &[(u16, &str, &[Op])] = &[
    (0, "MessageType", &[Enum(MSG_TYPES)]),
    (1, "ResultCode", &[U16, OptErr]),
    (2, "ProtocolVersion", &[U8, U8]),
    (3, "FramingCapabilities", &[Fix(4)]),
    (4, "BearerCapabilities", &[Fix(4)]),
    (5, "TieBreaker", &[Fix(8)]),
    (6, "FirmwareRevision", &[U16]),
    (7, "HostName", &[Rest]),
    (8, "VendorName", &[Utf8]),
    (9, "AssignedTunnelId", &[U16]),
    (10, "ReceiveWindowSize", &[U16]),
    (11, "Challenge", &[Rest]),
    (12, "Q931CauseCode", &[U16, U8, OptUtf8]),
    (13, "ChallengeResponse", &[Fix(16)]),
    (14, "AssignedSessionId", &[U16]),
    (15, "CallSerialNumber", &[Fix(4)]),
    (16, "MinimumBps", &[Fix(4)]),
    (17, "MaximumBps", &[Fix(4)]),
    (18, "BearerType", &[Fix(4)]),
    (19, "FramingType", &[Fix(4)]),
    (21, "CalledNumber", &[Utf8]),
    (22, "CallingNumber", &[Utf8]),
    (23, "SubAddress", &[Utf8]),
    (24, "TxConnectSpeed", &[Fix(4)]),
    (25, "PhysicalChannelId", &[Fix(4)]),
    (26, "InitialReceivedLcpConfReq", &[Rest]),
    (27, "LastSentLcpConfReq", &[Rest]),
    (28, "LastReceivedLcpConfReq", &[Rest]),
    (29, "ProxyAuthenType", &[Enum(PROXY_TYPES)]),
    (30, "ProxyAuthenName", &[Rest]),
    (31, "ProxyAuthenChallenge", &[Rest]),
    (32, "ProxyAuthenId", &[Skip(1), U8]),
    (33, "ProxyAuthenResponse", &[Rest]),
    (34, "CallErrors", &[Skip(2), Fix(4), Fix(4), Fix(4), Fix(4), Fix(4), Fix(4)]),
    (35, "Accm", &[Skip(2), Fix(4), Fix(4)]),
    (36, "RandomVector", &[Fix(4)]),
    (37, "PrivateGroupId", &[Rest]),
    (38, "RxConnectSpeed", &[Fix(4)]),
    (39, "SequencingRequired", &[]),
];

pub const BITMASK_KINDS: &[&str] = &["FramingCapabilities", "BearerCapabilities", "BearerType", "FramingType"];

pub fn kind_by_name(n: &str) -> Option<&'static (u16, &'static str, &'static [Op])> {
    KINDS.iter().find(|k| k.1 == n)
}
pub fn kind_by_type(t: u16) -> Option<&'static (u16, &'static str, &'static [Op])> {
    KINDS.iter().find(|k| k.0 == t)
}

pub fn min_len(prog: &[Op]) -> usize {
    prog.iter()
        .map(|o| match o {
            U8 => 1,
            U16 | Enum(_) => 2,
            Fix(n) | Skip(n) => *n,
            Rest | Utf8 => 1,
            OptUtf8 | OptErr => 0,
        })
        .sum()
}

// ---------------------------------------------------------------------------------------------
// random building blocks

/// well-formed UTF-8 of exactly n octets when possible (n >= 1), mixing 1..4-octet characters
pub fn gen_utf8(rng: &mut Rng, n: usize) -> Vec<u8> {
    // strings a lenient or "tidying" decoder might treat specially: NULs, blanks, line ends, BOM
    if n <= 8 && rng.chance(1, 6) {
        const SPECIAL: &[&[u8]] = &[
            b"\0", b"\0\0", b"\0\0\0\0", b"a\0", b"\0a", b"ab\0\0", b" ", b"  ", b" a", b"a ", b"\n", b"a\r\n", b"\t",
            b"\xef\xbb\xbfa", b"\x7f", b"\"", b"\\", b"%00", b"a\0b",
        ];
        let fit: Vec<&&[u8]> = SPECIAL.iter().filter(|x| x.len() == n).collect();
        if !fit.is_empty() {
            return rng.pick(&fit).to_vec();
        }
    }
    let mut out = Vec::with_capacity(n);
    while out.len() < n {
        let left = n - out.len();
        let w = match rng.below(10) {
            0..=5 => 1,
            6 => 2,
            7 => 3,
            8 => 4,
            _ => 1,
        }
        .min(left);
        let c = match w {
            1 => {
                if rng.chance(1, 20) {
                    rng.below(0x20) as u32
                } else {
                    rng.range(0x20, 0x7f) as u32
                }
            }
            2 => rng.range(0x80, 0x7ff) as u32,
            3 => {
                let x = rng.range(0x800, 0xffff - 0x800) as u32;
                if (0xd800..=0xdfff).contains(&x) {
                    x + 0x800
                } else {
                    x
                }
            }
            _ => rng.range(0x10000, 0x10ffff) as u32,
        };
        let ch = char::from_u32(c).unwrap_or('?');
        let mut b = [0u8; 4];
        let s = ch.encode_utf8(&mut b);
        if s.len() <= left {
            out.extend_from_slice(s.as_bytes());
        } else {
            out.push(b'x');
        }
    }
    out
}

/// boundary-biased length of a variable part, at most `max`
pub fn gen_len(rng: &mut Rng, max: usize) -> usize {
    let max = max.max(1);
    let n = match rng.below(12) {
        0 => 1,
        1 => 2,
        2 => 15,
        3 => 16,
        4 => 17,
        5 => max,
        6 => max - 1,
        7 => rng.range(1, 300) as usize,
        8 | 9 => rng.range(1, 5) as usize,
        _ => rng.range(1, 40) as usize,
    };
    n.clamp(1, max)
}

fn gen_fix(rng: &mut Rng, n: usize) -> Vec<u8> {
    match rng.below(8) {
        0 => vec![0; n],
        1 => vec![0xff; n],
        2 => {
            let mut v = vec![0; n];
            v[n - 1] = 1 << rng.below(8);
            v
        }
        3 => {
            let mut v = vec![0; n];
            v[0] = 0x80;
            v
        }
        _ => rng.bytes(n),
    }
}

/// a random AVP value of kind index `ki` in the individually encodable domain; the variable part
/// holds at most `maxvar` octets
pub fn gen_avp_kind(rng: &mut Rng, ki: usize, maxvar: usize) -> Value {
    let (_, name, prog) = KINDS[ki];
    let mut f: Vec<Value> = Vec::new();
    for o in prog {
        match o {
            U8 => f.push(json!(rng.u8())),
            U16 => f.push(json!(rng.u16())),
            Fix(n) => f.push(bytes_json(&gen_fix(rng, *n))),
            Skip(_) => {}
            Enum(tab) => f.push(json!(rng.pick(tab).1)),
            Rest => {
                let n = gen_len(rng, maxvar);
                f.push(bytes_json(&rng.bytes(n)))
            }
            Utf8 => {
                let n = gen_len(rng, maxvar);
                f.push(bytes_json(&gen_utf8(rng, n)))
            }
            OptUtf8 => {
                if rng.bool() {
                    let n = gen_len(rng, maxvar);
                    f.push(json!([bytes_json(&gen_utf8(rng, n))]))
                } else {
                    f.push(json!([]))
                }
            }
            OptErr => match rng.below(3) {
                0 => {
                    f.push(json!([]));
                    f.push(json!([]));
                }
                1 => {
                    f.push(json!([rng.pick(ERR_TYPES).1]));
                    f.push(json!([]));
                }
                _ => {
                    f.push(json!([rng.pick(ERR_TYPES).1]));
                    let n = gen_len(rng, maxvar);
                    f.push(json!([bytes_json(&gen_utf8(rng, n))]));
                }
            },
        }
    }
    json!({"k": name, "f": f})
}

pub fn gen_hidden(rng: &mut Rng, maxvar: usize) -> Value {
    let t = match rng.below(4) {
        0 => rng.u16(),
        1 => 20,
        _ => KINDS[rng.below(KINDS.len() as u64) as usize].0,
    };
    let n = match rng.below(4) {
        0 => 0,
        1 => 16 * rng.range(1, 4) as usize,
        _ => gen_len(rng, maxvar),
    };
    json!({"k": "Hidden", "f": [t, bytes_json(&rng.bytes(n))]})
}

pub fn gen_avp(rng: &mut Rng, maxvar: usize) -> Value {
    if rng.chance(1, 12) {
        gen_hidden(rng, maxvar)
    } else {
        let ki = rng.below(KINDS.len() as u64) as usize;
        gen_avp_kind(rng, ki, maxvar)
    }
}

pub fn gen_message_type(rng: &mut Rng) -> Value {
    json!({"k": "MessageType", "f": [rng.pick(MSG_TYPES).1]})
}

/// control message in C03's domain: first AVP (if any) a Message Type
pub fn gen_control(rng: &mut Rng, max_avps: usize, maxvar: usize) -> Value {
    let n = rng.below(max_avps as u64 + 1) as usize;
    let mut avps = Vec::new();
    if n > 0 {
        avps.push(gen_message_type(rng));
        for _ in 1..n {
            avps.push(gen_avp(rng, maxvar));
        }
    }
    json!({"k": "Control", "length": rng.u16(), "tunnel_id": rng.u16(), "session_id": rng.u16(),
           "ns": rng.u16(), "nr": rng.u16(), "avps": avps})
}

// ---------------------------------------------------------------------------------------------
// generator-side encoder (for crafting inputs only)

pub fn enc_payload(v: &Value) -> Vec<u8> {
    let k = v["k"].as_str().unwrap_or("");
    let f = v["f"].as_array().cloned().unwrap_or_default();
    if k == "Hidden" {
        return json_bytes(&f[1]).unwrap_or_default();
    }
    let Some((_, _, prog)) = kind_by_name(k) else { return vec![] };
    let mut out = Vec::new();
    let mut i = 0;
    for o in *prog {
        match o {
            U8 => {
                out.push(f[i].as_u64().unwrap_or(0) as u8);
                i += 1;
            }
            U16 => {
                out.extend_from_slice(&(f[i].as_u64().unwrap_or(0) as u16).to_be_bytes());
                i += 1;
            }
            Fix(_) | Rest | Utf8 => {
                out.extend(json_bytes(&f[i]).unwrap_or_default());
                i += 1;
            }
            Skip(n) => out.extend(std::iter::repeat(0).take(*n)),
            Enum(tab) => {
                let name = f[i].as_str().unwrap_or("");
                let code = tab.iter().find(|e| e.1 == name).map(|e| e.0).unwrap_or(0xfffe);
                out.extend_from_slice(&code.to_be_bytes());
                i += 1;
            }
            OptUtf8 => {
                if let Some(t) = f[i].as_array().and_then(|a| a.first()) {
                    out.extend(json_bytes(t).unwrap_or_default());
                }
                i += 1;
            }
            OptErr => {
                if let Some(n) = f[i].as_array().and_then(|a| a.first()).and_then(|x| x.as_str()) {
                    let code = ERR_TYPES.iter().find(|e| e.1 == n).map(|e| e.0).unwrap_or(0xfffe);
                    out.extend_from_slice(&code.to_be_bytes());
                    if let Some(t) = f[i + 1].as_array().and_then(|a| a.first()) {
                        out.extend(json_bytes(t).unwrap_or_default());
                    }
                }
                i += 2;
            }
        }
    }
    out
}

pub fn avp_type(v: &Value) -> u16 {
    let k = v["k"].as_str().unwrap_or("");
    if k == "Hidden" {
        v["f"][0].as_u64().unwrap_or(0) as u16
    } else {
        kind_by_name(k).map(|x| x.0).unwrap_or(0xffff)
    }
}

/// AVP record with explicit header fields
pub fn enc_record(flags6: u8, len: usize, vendor: u16, t: u16, payload: &[u8]) -> Vec<u8> {
    let mut v = vec![((((len >> 8) & 3) as u8) << 6) | (flags6 & 0x3f), len as u8];
    v.extend_from_slice(&vendor.to_be_bytes());
    v.extend_from_slice(&t.to_be_bytes());
    v.extend_from_slice(payload);
    v
}

pub fn enc_avp(v: &Value) -> Vec<u8> {
    let p = enc_payload(v);
    let hidden = v["k"] == "Hidden";
    enc_record(1 | if hidden { 2 } else { 0 }, 6 + p.len(), 0, avp_type(v), &p)
}

pub fn flag_word(t: bool, l: bool, s: bool, o: bool, p: bool, ver: u16) -> u16 {
    (t as u16) << 8 | (l as u16) << 9 | (s as u16) << 12 | (o as u16) << 14 | (p as u16) << 15 | (ver & 0xf) << 4
}

pub fn enc_control_raw(flags: u16, length: Option<u16>, ids: [u16; 4], body: &[u8]) -> Vec<u8> {
    let mut v = flags.to_be_bytes().to_vec();
    let len = length.unwrap_or((12 + body.len()) as u16);
    v.extend_from_slice(&len.to_be_bytes());
    for x in ids {
        v.extend_from_slice(&x.to_be_bytes());
    }
    v.extend_from_slice(body);
    v
}

pub fn enc_control(m: &Value) -> Vec<u8> {
    let mut body = Vec::new();
    for a in m["avps"].as_array().cloned().unwrap_or_default() {
        body.extend(enc_avp(&a));
    }
    let g = |k: &str| m[k].as_u64().unwrap_or(0) as u16;
    enc_control_raw(
        flag_word(true, true, true, false, false, 2),
        None,
        [g("tunnel_id"), g("session_id"), g("ns"), g("nr")],
        &body,
    )
}

/// data message octets from explicit parts; `length` None = no L bit
#[allow(clippy::too_many_arguments)]
pub fn enc_data_raw(
    flags_extra: u16,
    ver: u16,
    prio: bool,
    length: Option<u16>,
    tid: u16,
    sid: u16,
    ns_nr: Option<(u16, u16)>,
    offset: Option<(u16, Vec<u8>)>,
    data: &[u8],
) -> Vec<u8> {
    let w = flag_word(false, length.is_some(), ns_nr.is_some(), offset.is_some(), prio, ver) | flags_extra;
    let mut v = w.to_be_bytes().to_vec();
    if let Some(l) = length {
        v.extend_from_slice(&l.to_be_bytes());
    }
    v.extend_from_slice(&tid.to_be_bytes());
    v.extend_from_slice(&sid.to_be_bytes());
    if let Some((a, b)) = ns_nr {
        v.extend_from_slice(&a.to_be_bytes());
        v.extend_from_slice(&b.to_be_bytes());
    }
    if let Some((n, pad)) = offset {
        v.extend_from_slice(&n.to_be_bytes());
        v.extend_from_slice(&pad);
    }
    v.extend_from_slice(data);
    v
}

/// data message value in C04's domain (length absent or exact; offset absent or <= |data|-1)
pub fn gen_data(rng: &mut Rng, maxdata: usize) -> Value {
    let n = match rng.below(6) {
        0 => 1,
        1 => 2,
        2 => maxdata,
        _ => rng.range(1, maxdata.min(64) as u64) as usize,
    };
    let data = rng.bytes(n);
    let ns_nr = if rng.bool() { json!([[rng.u16(), rng.u16()]]) } else { json!([]) };
    let offset: Option<u16> = if rng.chance(1, 3) { Some(rng.below(n as u64) as u16) } else { None };
    let has_len = rng.bool();
    let total = 2 + if has_len { 2 } else { 0 } + 4 + if ns_nr.as_array().unwrap().is_empty() { 0 } else { 4 }
        + if offset.is_some() { 2 } else { 0 }
        + n;
    json!({"k": "Data", "prio": rng.bool(),
           "length": if has_len { json!([total]) } else { json!([]) },
           "tunnel_id": rng.u16(), "session_id": rng.u16(), "ns_nr": ns_nr,
           "offset": opt_json(offset.map(|x| json!(x))), "data": bytes_json(&data)})
}

// ---------------------------------------------------------------------------------------------
// wire mutations

pub fn mutate(rng: &mut Rng, b: &[u8], other: &[u8]) -> Vec<u8> {
    let mut v = b.to_vec();
    let k = rng.range(1, 3);
    for _ in 0..k {
        if v.is_empty() {
            v.push(rng.u8());
            continue;
        }
        let i = rng.below(v.len() as u64) as usize;
        match rng.below(13) {
            0 => v[i] ^= 1 << rng.below(8),
            1 => v[i] = rng.u8(),
            2 => v.truncate(i),
            3 => v.extend(rng.rbytes(1, 20)),
            4 => {
                // nudge a 16-bit big-endian field
                if i + 1 < v.len() {
                    let x = u16::from_be_bytes([v[i], v[i + 1]]);
                    let d = rng.range(1, 3) as u16;
                    let y = if rng.bool() { x.wrapping_add(d) } else { x.wrapping_sub(d) };
                    v[i..i + 2].copy_from_slice(&y.to_be_bytes());
                }
            }
            5 => v[i] = *rng.pick(&[0u8, 1, 2, 5, 6, 7, 12, 13, 0x7f, 0x80, 0xff]),
            6 => {
                v.insert(i, rng.u8());
            }
            7 => {
                v.remove(i);
            }
            8 => {
                // splice a piece of another encoding
                if !other.is_empty() {
                    let j = rng.below(other.len() as u64) as usize;
                    let n = rng.range(1, 12) as usize;
                    let piece = &other[j..(j + n).min(other.len())];
                    let at = i.min(v.len());
                    v.splice(at..at, piece.iter().copied());
                }
            }
            9 => {
                // header bits of the message
                let j = rng.below(2.min(v.len() as u64)) as usize;
                v[j] ^= 1 << rng.below(8);
            }
            10 => {
                // first octets of the length field area
                if v.len() > 3 {
                    let x = *rng.pick(&[0u16, 1, 11, 12, 13, 0xffff]);
                    v[2..4].copy_from_slice(&x.to_be_bytes());
                }
            }
            11 => {
                // make two 16-bit fields equal (a value that coincides with a length, an id, a type ...)
                if v.len() >= 4 {
                    let j = rng.below(v.len() as u64 - 1) as usize;
                    let k = i.min(v.len() - 2);
                    let (a, b) = (v[j], v[j + 1]);
                    v[k] = a;
                    v[k + 1] = b;
                }
            }
            _ => {
                let n = rng.range(1, 4) as usize;
                let at = v.len().saturating_sub(n);
                v.truncate(at);
            }
        }
    }
    v
}

pub fn gen_opts(rng: &mut Rng) -> Value {
    json!([rng.bool(), rng.bool(), rng.bool()])
}

pub fn all_opts() -> Vec<Value> {
    let mut v = Vec::new();
    for i in 0..8 {
        v.push(json!([i & 1 != 0, i & 2 != 0, i & 4 != 0]));
    }
    v
}

// ---------------------------------------------------------------------------------------------
// suites

use crate::gen2::Out;

fn counts(tier: &str, quick: u64, thorough: u64) -> u64 {
    if tier == "thorough" {
        thorough
    } else {
        quick
    }
}

/// random message inputs: valid encodings, their mutations, raw noise
fn random_message_input(rng: &mut Rng) -> Vec<u8> {
    let base = if rng.chance(2, 3) {
        let maxavps = rng.range(0, 6) as usize;
        // mostly small AVPs; regularly ones that need the high bits of the 10-bit length
        let maxvar = *rng.pick(&[24usize, 40, 40, 300, 600, 1017]);
        enc_control(&gen_control(rng, maxavps, maxvar))
    } else {
        enc_data_from_value(&gen_data(rng, 80), rng)
    };
    match rng.below(10) {
        0..=2 => base,
        3..=7 => {
            let other = enc_control(&gen_control(rng, 3, 20));
            mutate(rng, &base, &other)
        }
        8 => {
            let n = rng.range(0, 40) as usize;
            rng.bytes(n)
        }
        _ => {
            // valid header followed by noise
            let mut v = base;
            let keep = rng.range(0, 14).min(v.len() as u64) as usize;
            v.truncate(keep);
            v.extend(rng.rbytes(0, 30));
            v
        }
    }
}

pub fn random_message_input_pub(rng: &mut Rng) -> Vec<u8> {
    random_message_input(rng)
}

/// wire form of a data message value: offset n is written but (as the crate's encoder does)
/// no pad octets are added
pub fn enc_data_from_value(d: &Value, _rng: &mut Rng) -> Vec<u8> {
    let g = |k: &str| d[k].as_u64().unwrap_or(0) as u16;
    let length = d["length"].as_array().and_then(|a| a.first()).map(|x| x.as_u64().unwrap_or(0) as u16);
    let ns_nr = d["ns_nr"].as_array().and_then(|a| a.first()).map(|p| (p[0].as_u64().unwrap_or(0) as u16, p[1].as_u64().unwrap_or(0) as u16));
    let offset = d["offset"].as_array().and_then(|a| a.first()).map(|x| (x.as_u64().unwrap_or(0) as u16, vec![]));
    enc_data_raw(0, 2, d["prio"].as_bool().unwrap_or(false), length, g("tunnel_id"), g("session_id"), ns_nr, offset,
        &json_bytes(&d["data"]).unwrap_or_default())
}

fn suite_decode(out: &mut Out, tier: &str, rng: &mut Rng, readers: &[&str]) {
    let n = counts(tier, 1500, 60000);
    for i in 0..n {
        let input = random_message_input(rng);
        let opts = gen_opts(rng);
        let rdr = readers[(i as usize) % readers.len()];
        let entry = if rng.chance(1, 8) { "default" } else { "validate" };
        out.emit(json!({"op": "decode", "in": bytes_json(&input), "opts": opts, "entry": entry, "rdr": rdr}));
    }
}

/// AVP list inputs assembled from independently generated good and bad records
fn random_avp_list(rng: &mut Rng, max: usize) -> Vec<u8> {
    let n = rng.range(0, max as u64) as usize;
    let mut v = Vec::new();
    for _ in 0..n {
        v.extend(random_record(rng));
    }
    if rng.chance(1, 4) {
        v.extend(rng.rbytes(1, 5));
    }
    v
}

pub fn random_record(rng: &mut Rng) -> Vec<u8> {
    match rng.below(16) {
        0..=5 => enc_avp(&gen_avp(rng, 24)),
        6 => {
            let maxvar = *rng.pick(&[250usize, 251, 300, 506, 507, 1017]);
            enc_avp(&gen_avp(rng, maxvar))
        }
        7 => {
            // M clear / reserved bits set: ignored on input
            let a = gen_avp(rng, 16);
            let p = enc_payload(&a);
            let h = if a["k"] == "Hidden" { 2 } else { 0 };
            enc_record((rng.u8() & 0x3c) | h | (rng.u8() & 1), 6 + p.len(), 0, avp_type(&a), &p)
        }
        8 => {
            // vendor specific
            let a = gen_avp(rng, 12);
            let p = enc_payload(&a);
            enc_record(1, 6 + p.len(), rng.range(1, 0xffff) as u16, avp_type(&a), &p)
        }
        9 => {
            // unknown attribute type
            let t = *rng.pick(&[20u16, 40, 41, 255, 256, 0xffff]);
            let p = rng.rbytes(0, 10);
            enc_record(1, 6 + p.len(), 0, t, &p)
        }
        10 => {
            // truncated payload of a known kind
            let ki = rng.below(KINDS.len() as u64) as usize;
            let (t, _, prog) = KINDS[ki];
            let m = min_len(prog);
            let n = if m == 0 { 0 } else { rng.below(m as u64) as usize };
            let p = rng.bytes(n);
            enc_record(1, 6 + n, 0, t, &p)
        }
        11 => {
            // surplus payload
            let ki = rng.below(KINDS.len() as u64) as usize;
            let a = gen_avp_kind(rng, ki, 10);
            let mut p = enc_payload(&a);
            p.extend(rng.rbytes(1, 4));
            enc_record(1, 6 + p.len(), 0, avp_type(&a), &p)
        }
        12 => {
            // bad UTF-8 / bad enum code
            match rng.below(3) {
                0 => {
                    let t = *rng.pick(&[8u16, 21, 22, 23]);
                    let mut p = gen_utf8(rng, 6);
                    let i = rng.below(p.len() as u64) as usize;
                    p[i] = *rng.pick(&[0x80u8, 0xc0, 0xff, 0xed, 0xf5]);
                    enc_record(1, 6 + p.len(), 0, t, &p)
                }
                1 => enc_record(1, 8, 0, *rng.pick(&[0u16, 29]), &rng.u16().to_be_bytes()),
                _ => {
                    let mut p = vec![0, 2];
                    p.extend_from_slice(&rng.u16().to_be_bytes());
                    enc_record(1, 10, 0, 1, &p)
                }
            }
        }
        13 => {
            // unusable length: below 6 or beyond the data
            let a = gen_avp(rng, 8);
            let p = enc_payload(&a);
            let excess = if rng.bool() { rng.range(1, 3) as usize } else { rng.range(1, 30) as usize };
            let len = if rng.chance(1, 3) { rng.below(6) as usize } else { 6 + p.len() + excess };
            enc_record(1, len & 0x3ff, 0, avp_type(&a), &p)
        }
        14 => {
            // hidden bit on an ordinary record
            let a = gen_avp(rng, 16);
            let p = enc_payload(&a);
            enc_record(3, 6 + p.len(), 0, avp_type(&a), &p)
        }
        _ => rng.rbytes(6, 14),
    }
}

fn suite_avps(out: &mut Out, tier: &str, rng: &mut Rng, readers: &[&str]) {
    let n = counts(tier, 1500, 60000);
    for i in 0..n {
        let input = match rng.below(4) {
            0 => {
                let a = random_avp_list(rng, 3);
                let b = random_avp_list(rng, 2);
                mutate(rng, &a, &b)
            }
            _ => random_avp_list(rng, 8),
        };
        out.emit(json!({"op": "decode_avps", "in": bytes_json(&input), "rdr": readers[(i as usize) % readers.len()]}));
    }
}

fn suite_payload(out: &mut Out, tier: &str, rng: &mut Rng, readers: &[&str]) {
    // every kind at payload length 0 .. min+2, then random payloads
    let mut i = 0usize;
    for (t, _, prog) in KINDS.iter().filter(|k| k.0 != 39) {
        let m = min_len(prog);
        for n in 0..=(m + 2) {
            for rep in 0..2 {
                let p = if rep == 0 { vec![0u8; n] } else { rng.bytes(n) };
                out.emit(json!({"op": "decode_payload", "t": t, "in": bytes_json(&p), "rdr": readers[i % readers.len()]}));
                i += 1;
            }
        }
    }
    let n = counts(tier, 600, 30000);
    for _ in 0..n {
        let ki = rng.below(KINDS.len() as u64 - 1) as usize;
        let a = gen_avp_kind(rng, ki, 30);
        let mut p = enc_payload(&a);
        if rng.chance(1, 3) {
            p = mutate(rng, &p, &[]);
        }
        out.emit(json!({"op": "decode_payload", "t": KINDS[ki].0, "in": bytes_json(&p), "rdr": readers[i % readers.len()]}));
        i += 1;
    }
}

pub fn gen_main(args: &[String]) -> i32 {
    if args.len() < 3 {
        eprintln!("usage: rlv gen <suite> <tier> <seed>");
        return 2;
    }
    let suite = args[0].as_str();
    let tier = args[1].as_str();
    let seed: u64 = args[2].parse().unwrap_or(0);
    let mut rng = Rng::new(seed ^ 0x6c32_7470);
    let mut out = Out { n: 0 };
    match suite {
        "decode" => suite_decode(&mut out, tier, &mut rng, &["slice"]),
        "decode_readers" => suite_decode(&mut out, tier, &mut rng, &["all"]),
        "avps" => suite_avps(&mut out, tier, &mut rng, &["slice"]),
        "avps_readers" => suite_avps(&mut out, tier, &mut rng, &["all"]),
        "payload" => suite_payload(&mut out, tier, &mut rng, &["slice"]),
        "payload_readers" => suite_payload(&mut out, tier, &mut rng, &["all"]),
        "encode" => crate::gen2::suite_encode(&mut out, tier, &mut rng),
        "encode_seq" => crate::gen2::suite_encode_seq(&mut out, tier, &mut rng),
        "roundtrip_ctl" => crate::gen2::suite_roundtrip_ctl(&mut out, tier, &mut rng),
        "roundtrip_data" => crate::gen2::suite_roundtrip_data(&mut out, tier, &mut rng),
        "chain" => crate::gen2::suite_chain(&mut out, tier, &mut rng),
        "hide" => crate::gen2::suite_hide(&mut out, tier, &mut rng),
        "reveal" => crate::gen2::suite_reveal(&mut out, tier, &mut rng),
        "hide_reveal" => crate::gen2::suite_hide_reveal(&mut out, tier, &mut rng),
        "enum" => crate::gen2::suite_enum(&mut out, tier, &mut rng),
        "bitmask" => crate::gen2::suite_bitmask(&mut out, tier, &mut rng),
        "render" => crate::gen2::suite_render(&mut out, tier, &mut rng),
        "cursor" => crate::gen2::suite_cursor(&mut out, tier, &mut rng),
        "vecwriter" => crate::gen2::suite_vecwriter(&mut out, tier, &mut rng),
        "decode_seq" => crate::gen2::suite_decode_seq(&mut out, tier, &mut rng),
        "suffix" => crate::gen2::suite_suffix(&mut out, tier, &mut rng),
        "concat" => crate::gen2::suite_concat(&mut out, tier, &mut rng),
        "flags" => crate::gen2::suite_flags(&mut out, tier, &mut rng),
        "fault" => crate::gen2::suite_fault(&mut out, tier, &mut rng),
        "threads" => crate::gen2::suite_threads(&mut out, tier, &mut rng),
        "decode_big" => crate::gen2::suite_decode_big(&mut out, tier, &mut rng),
        "fault_sweep" => crate::gen2::suite_fault_sweep(&mut out, tier, &mut rng),
        "bits" => crate::gen2::suite_bits(&mut out, tier, &mut rng),
        "small_values" => crate::gen2::suite_small_values(&mut out, tier, &mut rng),
        "many_avps" => crate::gen2::suite_many_avps(&mut out, tier, &mut rng),
        "avp_lengths" => crate::gen2::suite_avp_lengths(&mut out, tier, &mut rng),
        "kind_pairs" => crate::gen2::suite_kind_pairs(&mut out, tier, &mut rng),
        "text_classes" => crate::gen2::suite_text_classes(&mut out, tier, &mut rng),
        "rfc_messages" => crate::gen2::suite_rfc_messages(&mut out, tier, &mut rng),
        "record_product" => crate::gen2::suite_record_product(&mut out, tier, &mut rng),
        "value_products" => crate::gen2::suite_value_products(&mut out, tier, &mut rng),
        "octet_sweep" => crate::gen2::suite_octet_sweep(&mut out, tier, &mut rng),
        "history" => crate::gen2::suite_history(&mut out, tier, &mut rng),
        "ignored" => crate::gen2::suite_ignored(&mut out, tier, &mut rng),
        "reveal_plain" => crate::gen2::suite_reveal_plain(&mut out, tier, &mut rng),
        "ctl_records" => crate::gen2::suite_ctl_records(&mut out, tier, &mut rng),
        other => {
            eprintln!("unknown suite {other}");
            return 2;
        }
    }
    0
}
