//! Projection between rl2tp values and the JSON shape of the TLA+ specification values.
//!
//! Mechanical on purpose: u8/u16 -> integer; u32/u64/[u8;N]/Vec<u8>/String -> octet array
//! (big-endian for integers, UTF-8 for strings); enum -> Debug variant name; Option -> [] / [x];
//! AVP -> {"k": kind, "f": [fields]}; error -> {"v": variant, "a": [args]}.
use crate::util::*;
use core::borrow::Borrow;
use rl2tp::avp::types::{self, result_code};
use rl2tp::avp::AVP;
use rl2tp::common::{DecodeError, Reader, SliceReader};
use rl2tp::{ControlMessage, DataMessage, Message};
use serde_json::{json, Value};

fn be32(x: u32) -> Value {
    bytes_json(&x.to_be_bytes())
}
fn be64(x: u64) -> Value {
    bytes_json(&x.to_be_bytes())
}
fn s(x: &str) -> Value {
    bytes_json(x.as_bytes())
}
fn avp(k: &str, f: Vec<Value>) -> Value {
    json!({"k": k, "f": f})
}

/// Raw 32 bits of a bitmask AVP: the field is private, so read it from the derived Debug text
/// (independent of the encoder).  None if the text has no `data: <n>`.
pub fn bitmask_bits(dbg: &str) -> Option<u32> {
    let i = dbg.find("data: ")?;
    let rest = &dbg[i + 6..];
    let digits: String = rest.chars().take_while(|c| c.is_ascii_digit()).collect();
    digits.parse().ok()
}

fn bitmask_json(k: &str, dbg: String) -> Value {
    match bitmask_bits(&dbg) {
        Some(w) => avp(k, vec![be32(w)]),
        None => json!({"k": k, "f": [], "unprojectable": dbg}),
    }
}

pub fn avp_to_json(a: &AVP) -> Value {
    use AVP::*;
    match a {
        MessageType(x) => avp("MessageType", vec![json!(format!("{x:?}"))]),
        RandomVector(x) => avp("RandomVector", vec![bytes_json(&x.value)]),
        ResultCode(x) => {
            let code: u16 = x.code.into();
            let (et, msg) = match &x.error {
                None => (json!([]), json!([])),
                Some(e) => (
                    json!([format!("{:?}", e.error_type)]),
                    opt_json(e.error_message.as_ref().map(|m| s(m))),
                ),
            };
            avp("ResultCode", vec![json!(code), et, msg])
        }
        ProtocolVersion(x) => avp("ProtocolVersion", vec![json!(x.version), json!(x.revision)]),
        FramingCapabilities(x) => bitmask_json("FramingCapabilities", format!("{x:?}")),
        BearerCapabilities(x) => bitmask_json("BearerCapabilities", format!("{x:?}")),
        TieBreaker(x) => avp("TieBreaker", vec![be64(x.value)]),
        FirmwareRevision(x) => avp("FirmwareRevision", vec![json!(x.value)]),
        HostName(x) => avp("HostName", vec![bytes_json(&x.value)]),
        VendorName(x) => avp("VendorName", vec![s(&x.value)]),
        AssignedTunnelId(x) => avp("AssignedTunnelId", vec![json!(x.value)]),
        ReceiveWindowSize(x) => avp("ReceiveWindowSize", vec![json!(x.value)]),
        Challenge(x) => avp("Challenge", vec![bytes_json(&x.value)]),
        ChallengeResponse(x) => avp("ChallengeResponse", vec![bytes_json(&x.value)]),
        Q931CauseCode(x) => avp(
            "Q931CauseCode",
            vec![json!(x.cause_code), json!(x.cause_msg), opt_json(x.advisory.as_ref().map(|m| s(m)))],
        ),
        AssignedSessionId(x) => avp("AssignedSessionId", vec![json!(x.value)]),
        CallSerialNumber(x) => avp("CallSerialNumber", vec![be32(x.value)]),
        MinimumBps(x) => avp("MinimumBps", vec![be32(x.value)]),
        MaximumBps(x) => avp("MaximumBps", vec![be32(x.value)]),
        BearerType(x) => bitmask_json("BearerType", format!("{x:?}")),
        FramingType(x) => bitmask_json("FramingType", format!("{x:?}")),
        CalledNumber(x) => avp("CalledNumber", vec![s(&x.value)]),
        CallingNumber(x) => avp("CallingNumber", vec![s(&x.value)]),
        SubAddress(x) => avp("SubAddress", vec![s(&x.value)]),
        TxConnectSpeed(x) => avp("TxConnectSpeed", vec![be32(x.value)]),
        RxConnectSpeed(x) => avp("RxConnectSpeed", vec![be32(x.value)]),
        PhysicalChannelId(x) => avp("PhysicalChannelId", vec![bytes_json(&x.value)]),
        PrivateGroupId(x) => avp("PrivateGroupId", vec![bytes_json(&x.value)]),
        SequencingRequired(_) => avp("SequencingRequired", vec![]),
        InitialReceivedLcpConfReq(x) => avp("InitialReceivedLcpConfReq", vec![bytes_json(&x.value)]),
        LastSentLcpConfReq(x) => avp("LastSentLcpConfReq", vec![bytes_json(&x.value)]),
        LastReceivedLcpConfReq(x) => avp("LastReceivedLcpConfReq", vec![bytes_json(&x.value)]),
        ProxyAuthenType(x) => avp("ProxyAuthenType", vec![json!(format!("{x:?}"))]),
        ProxyAuthenName(x) => avp("ProxyAuthenName", vec![bytes_json(&x.value)]),
        ProxyAuthenChallenge(x) => avp("ProxyAuthenChallenge", vec![bytes_json(&x.value)]),
        ProxyAuthenId(x) => avp("ProxyAuthenId", vec![json!(x.value)]),
        ProxyAuthenResponse(x) => avp("ProxyAuthenResponse", vec![bytes_json(&x.value)]),
        CallErrors(x) => avp(
            "CallErrors",
            vec![
                be32(x.crc_errors),
                be32(x.framing_errors),
                be32(x.hardware_overruns),
                be32(x.buffer_overruns),
                be32(x.timeout_errors),
                be32(x.alignment_errors),
            ],
        ),
        Accm(x) => avp("Accm", vec![bytes_json(&x.send_accm), bytes_json(&x.receive_accm)]),
        Hidden(x) => avp("Hidden", vec![json!(x.attribute_type), bytes_json(&x.value)]),
    }
}

pub fn message_type_from_name(n: &str) -> Option<types::MessageType> {
    use types::MessageType::*;
    Some(match n {
        "StartControlConnectionRequest" => StartControlConnectionRequest,
        "StartControlConnectionReply" => StartControlConnectionReply,
        "StartControlConnectionConnected" => StartControlConnectionConnected,
        "StopControlConnectionNotification" => StopControlConnectionNotification,
        "Hello" => Hello,
        "OutgoingCallRequest" => OutgoingCallRequest,
        "OutgoingCallReply" => OutgoingCallReply,
        "OutgoingCallConnected" => OutgoingCallConnected,
        "IncomingCallRequest" => IncomingCallRequest,
        "IncomingCallReply" => IncomingCallReply,
        "IncomingCallConnected" => IncomingCallConnected,
        "CallDisconnectNotify" => CallDisconnectNotify,
        "WanErrorNotify" => WanErrorNotify,
        "SetLinkInfo" => SetLinkInfo,
        _ => return None,
    })
}

pub const MESSAGE_TYPE_NAMES: [&str; 14] = [
    "StartControlConnectionRequest",
    "StartControlConnectionReply",
    "StartControlConnectionConnected",
    "StopControlConnectionNotification",
    "Hello",
    "OutgoingCallRequest",
    "OutgoingCallReply",
    "OutgoingCallConnected",
    "IncomingCallRequest",
    "IncomingCallReply",
    "IncomingCallConnected",
    "CallDisconnectNotify",
    "WanErrorNotify",
    "SetLinkInfo",
];

pub fn error_type_from_name(n: &str) -> Option<result_code::ErrorType> {
    use result_code::ErrorType::*;
    Some(match n {
        "Ok" => Ok,
        "NoControlConnectionExists" => NoControlConnectionExists,
        "WrongLength" => WrongLength,
        "OutOfRangeOrBadReserved" => OutOfRangeOrBadReserved,
        "InsufficientResources" => InsufficientResources,
        "InvalidSessionId" => InvalidSessionId,
        "Generic" => Generic,
        "TryAnotherDestination" => TryAnotherDestination,
        "UnknownMandatoryAvp" => UnknownMandatoryAvp,
        _ => return None,
    })
}

pub const ERROR_TYPE_NAMES: [&str; 9] = [
    "Ok",
    "NoControlConnectionExists",
    "WrongLength",
    "OutOfRangeOrBadReserved",
    "InsufficientResources",
    "InvalidSessionId",
    "Generic",
    "TryAnotherDestination",
    "UnknownMandatoryAvp",
];

pub fn proxy_authen_type_from_name(n: &str) -> Option<types::ProxyAuthenType> {
    use types::ProxyAuthenType::*;
    Some(match n {
        "Reserved" => Reserved,
        "TextualUserNamePasswordExchange" => TextualUserNamePasswordExchange,
        "PppChap" => PppChap,
        "PppPap" => PppPap,
        "NoAuthentication" => NoAuthentication,
        "MicrosoftChapVersion1" => MicrosoftChapVersion1,
        _ => return None,
    })
}

pub const PROXY_AUTHEN_TYPE_NAMES: [&str; 6] = [
    "Reserved",
    "TextualUserNamePasswordExchange",
    "PppChap",
    "PppPap",
    "NoAuthentication",
    "MicrosoftChapVersion1",
];

pub fn stop_ccn_from_name(n: &str) -> Option<result_code::StopCcnCode> {
    use result_code::StopCcnCode::*;
    Some(match n {
        "Reserved" => Reserved,
        "GeneralRequestToClearControlConnection" => GeneralRequestToClearControlConnection,
        "GeneralError" => GeneralError,
        "ControlChannelAlreadyExists" => ControlChannelAlreadyExists,
        "RequesterNotAuthorizedToEstablishControlChannel" => RequesterNotAuthorizedToEstablishControlChannel,
        "RequesterProtocolVersionUnsupported" => RequesterProtocolVersionUnsupported,
        "RequesterShutdown" => RequesterShutdown,
        "FsmError" => FsmError,
        _ => return None,
    })
}

pub const STOP_CCN_NAMES: [&str; 8] = [
    "Reserved",
    "GeneralRequestToClearControlConnection",
    "GeneralError",
    "ControlChannelAlreadyExists",
    "RequesterNotAuthorizedToEstablishControlChannel",
    "RequesterProtocolVersionUnsupported",
    "RequesterShutdown",
    "FsmError",
];

pub fn cdn_from_name(n: &str) -> Option<result_code::CdnCode> {
    use result_code::CdnCode::*;
    Some(match n {
        "Reserved" => Reserved,
        "CallDisconnectedLossOfCarrier" => CallDisconnectedLossOfCarrier,
        "CallDisconnectedWithErrorCode" => CallDisconnectedWithErrorCode,
        "CallDisconnectedAdministrative" => CallDisconnectedAdministrative,
        "CallFailedTemporarilyUnavailable" => CallFailedTemporarilyUnavailable,
        "CallFailedPermanentlyUnavailable" => CallFailedPermanentlyUnavailable,
        "InvalidDestination" => InvalidDestination,
        "CallFailedNoCarrier" => CallFailedNoCarrier,
        "CallFailedBusySignal" => CallFailedBusySignal,
        "CallFailedNoDialTone" => CallFailedNoDialTone,
        "CallEstablishTimeout" => CallEstablishTimeout,
        "CallNoFramingDetected" => CallNoFramingDetected,
        _ => return None,
    })
}

pub const CDN_NAMES: [&str; 12] = [
    "Reserved",
    "CallDisconnectedLossOfCarrier",
    "CallDisconnectedWithErrorCode",
    "CallDisconnectedAdministrative",
    "CallFailedTemporarilyUnavailable",
    "CallFailedPermanentlyUnavailable",
    "InvalidDestination",
    "CallFailedNoCarrier",
    "CallFailedBusySignal",
    "CallFailedNoDialTone",
    "CallEstablishTimeout",
    "CallNoFramingDetected",
];

fn utf8(v: &Value) -> Result<String, String> {
    String::from_utf8(json_bytes(v)?).map_err(|_| "string field is not UTF-8".to_string())
}

fn be32_of(v: &Value) -> Result<u32, String> {
    Ok(u32::from_be_bytes(json_fixed::<4>(v)?))
}

/// A bitmask value with arbitrary 32 bits can only be built through the public per-type reader
/// (the constructor takes two booleans); the Debug text is checked to hold the same bits.
macro_rules! bitmask_from_bits {
    ($ty:ident, $bits:expr) => {{
        let octets = $bits.to_be_bytes();
        let mut r = SliceReader::from(&octets[..]);
        let x = types::$ty::try_read(&mut r).map_err(|e| format!("bitmask build: {e:?}"))?;
        x
    }};
}

pub fn avp_from_json(v: &Value) -> Result<AVP, String> {
    let k = v["k"].as_str().ok_or("avp without k")?;
    let f = v["f"].as_array().ok_or("avp without f")?;
    let need = |n: usize| -> Result<(), String> {
        if f.len() == n {
            Ok(())
        } else {
            Err(format!("{k}: expected {n} fields, got {}", f.len()))
        }
    };
    Ok(match k {
        "MessageType" => {
            need(1)?;
            AVP::MessageType(
                message_type_from_name(f[0].as_str().ok_or("name")?).ok_or("unknown message type name")?,
            )
        }
        "RandomVector" => {
            need(1)?;
            AVP::RandomVector(types::RandomVector { value: json_fixed::<4>(&f[0])? })
        }
        "ResultCode" => {
            need(3)?;
            let code = json_u16(&f[0])?;
            let et = json_opt(&f[1])?;
            let msg = json_opt(&f[2])?;
            let error = match et {
                None => {
                    if msg.is_some() {
                        return Err("ResultCode message without error type".into());
                    }
                    None
                }
                Some(n) => Some(result_code::Error {
                    error_type: error_type_from_name(n.as_str().ok_or("name")?).ok_or("unknown error type name")?,
                    error_message: match msg {
                        None => None,
                        Some(m) => Some(utf8(m)?),
                    },
                }),
            };
            AVP::ResultCode(types::ResultCode { code: code.into(), error })
        }
        "ProtocolVersion" => {
            need(2)?;
            AVP::ProtocolVersion(types::ProtocolVersion { version: json_u8(&f[0])?, revision: json_u8(&f[1])? })
        }
        "FramingCapabilities" => {
            need(1)?;
            AVP::FramingCapabilities(bitmask_from_bits!(FramingCapabilities, be32_of(&f[0])?))
        }
        "BearerCapabilities" => {
            need(1)?;
            AVP::BearerCapabilities(bitmask_from_bits!(BearerCapabilities, be32_of(&f[0])?))
        }
        "BearerType" => {
            need(1)?;
            AVP::BearerType(bitmask_from_bits!(BearerType, be32_of(&f[0])?))
        }
        "FramingType" => {
            need(1)?;
            AVP::FramingType(bitmask_from_bits!(FramingType, be32_of(&f[0])?))
        }
        "TieBreaker" => {
            need(1)?;
            AVP::TieBreaker(types::TieBreaker { value: u64::from_be_bytes(json_fixed::<8>(&f[0])?) })
        }
        "FirmwareRevision" => {
            need(1)?;
            AVP::FirmwareRevision(types::FirmwareRevision { value: json_u16(&f[0])? })
        }
        "HostName" => {
            need(1)?;
            AVP::HostName(types::HostName { value: json_bytes(&f[0])? })
        }
        "VendorName" => {
            need(1)?;
            AVP::VendorName(types::VendorName { value: utf8(&f[0])? })
        }
        "AssignedTunnelId" => {
            need(1)?;
            AVP::AssignedTunnelId(types::AssignedTunnelId { value: json_u16(&f[0])? })
        }
        "ReceiveWindowSize" => {
            need(1)?;
            AVP::ReceiveWindowSize(types::ReceiveWindowSize { value: json_u16(&f[0])? })
        }
        "Challenge" => {
            need(1)?;
            AVP::Challenge(types::Challenge { value: json_bytes(&f[0])? })
        }
        "ChallengeResponse" => {
            need(1)?;
            AVP::ChallengeResponse(types::ChallengeResponse { value: json_fixed::<16>(&f[0])? })
        }
        "Q931CauseCode" => {
            need(3)?;
            AVP::Q931CauseCode(types::Q931CauseCode {
                cause_code: json_u16(&f[0])?,
                cause_msg: json_u8(&f[1])?,
                advisory: match json_opt(&f[2])? {
                    None => None,
                    Some(m) => Some(utf8(m)?),
                },
            })
        }
        "AssignedSessionId" => {
            need(1)?;
            AVP::AssignedSessionId(types::AssignedSessionId { value: json_u16(&f[0])? })
        }
        "CallSerialNumber" => {
            need(1)?;
            AVP::CallSerialNumber(types::CallSerialNumber { value: be32_of(&f[0])? })
        }
        "MinimumBps" => {
            need(1)?;
            AVP::MinimumBps(types::MinimumBps { value: be32_of(&f[0])? })
        }
        "MaximumBps" => {
            need(1)?;
            AVP::MaximumBps(types::MaximumBps { value: be32_of(&f[0])? })
        }
        "CalledNumber" => {
            need(1)?;
            AVP::CalledNumber(types::CalledNumber { value: utf8(&f[0])? })
        }
        "CallingNumber" => {
            need(1)?;
            AVP::CallingNumber(types::CallingNumber { value: utf8(&f[0])? })
        }
        "SubAddress" => {
            need(1)?;
            AVP::SubAddress(types::SubAddress { value: utf8(&f[0])? })
        }
        "TxConnectSpeed" => {
            need(1)?;
            AVP::TxConnectSpeed(types::TxConnectSpeed { value: be32_of(&f[0])? })
        }
        "RxConnectSpeed" => {
            need(1)?;
            AVP::RxConnectSpeed(types::RxConnectSpeed { value: be32_of(&f[0])? })
        }
        "PhysicalChannelId" => {
            need(1)?;
            AVP::PhysicalChannelId(types::PhysicalChannelId { value: json_fixed::<4>(&f[0])? })
        }
        "PrivateGroupId" => {
            need(1)?;
            AVP::PrivateGroupId(types::PrivateGroupId { value: json_bytes(&f[0])? })
        }
        "SequencingRequired" => {
            need(0)?;
            AVP::SequencingRequired(types::SequencingRequired {})
        }
        "InitialReceivedLcpConfReq" => {
            need(1)?;
            AVP::InitialReceivedLcpConfReq(types::InitialReceivedLcpConfReq { value: json_bytes(&f[0])? })
        }
        "LastSentLcpConfReq" => {
            need(1)?;
            AVP::LastSentLcpConfReq(types::LastSentLcpConfReq { value: json_bytes(&f[0])? })
        }
        "LastReceivedLcpConfReq" => {
            need(1)?;
            AVP::LastReceivedLcpConfReq(types::LastReceivedLcpConfReq { value: json_bytes(&f[0])? })
        }
        "ProxyAuthenType" => {
            need(1)?;
            AVP::ProxyAuthenType(
                proxy_authen_type_from_name(f[0].as_str().ok_or("name")?).ok_or("unknown proxy authen type name")?,
            )
        }
        "ProxyAuthenName" => {
            need(1)?;
            AVP::ProxyAuthenName(types::ProxyAuthenName { value: json_bytes(&f[0])? })
        }
        "ProxyAuthenChallenge" => {
            need(1)?;
            AVP::ProxyAuthenChallenge(types::ProxyAuthenChallenge { value: json_bytes(&f[0])? })
        }
        "ProxyAuthenId" => {
            need(1)?;
            AVP::ProxyAuthenId(types::ProxyAuthenId { value: json_u8(&f[0])? })
        }
        "ProxyAuthenResponse" => {
            need(1)?;
            AVP::ProxyAuthenResponse(types::ProxyAuthenResponse { value: json_bytes(&f[0])? })
        }
        "CallErrors" => {
            need(6)?;
            AVP::CallErrors(types::CallErrors {
                crc_errors: be32_of(&f[0])?,
                framing_errors: be32_of(&f[1])?,
                hardware_overruns: be32_of(&f[2])?,
                buffer_overruns: be32_of(&f[3])?,
                timeout_errors: be32_of(&f[4])?,
                alignment_errors: be32_of(&f[5])?,
            })
        }
        "Accm" => {
            need(2)?;
            AVP::Accm(types::Accm { send_accm: json_fixed::<4>(&f[0])?, receive_accm: json_fixed::<4>(&f[1])? })
        }
        "Hidden" => {
            need(2)?;
            AVP::Hidden(types::Hidden { attribute_type: json_u16(&f[0])?, value: json_bytes(&f[1])? })
        }
        other => return Err(format!("unknown AVP kind {other}")),
    })
}

pub fn msg_to_json<T: Borrow<[u8]>>(m: &Message<T>) -> Value {
    match m {
        Message::Control(c) => json!({
            "k": "Control", "length": c.length, "tunnel_id": c.tunnel_id, "session_id": c.session_id,
            "ns": c.ns, "nr": c.nr,
            "avps": c.avps.iter().map(avp_to_json).collect::<Vec<_>>(),
        }),
        Message::Data(d) => json!({
            "k": "Data", "prio": d.is_prioritized,
            "length": opt_json(d.length.map(|x| json!(x))),
            "tunnel_id": d.tunnel_id, "session_id": d.session_id,
            "ns_nr": opt_json(d.ns_nr.map(|(a, b)| json!([a, b]))),
            "offset": opt_json(d.offset.map(|x| json!(x))),
            "data": bytes_json(d.data.borrow()),
        }),
    }
}

pub fn msg_from_json(v: &Value) -> Result<Message<Vec<u8>>, String> {
    match v["k"].as_str() {
        Some("Control") => {
            let avps = v["avps"].as_array().ok_or("avps")?.iter().map(avp_from_json).collect::<Result<Vec<_>, _>>()?;
            Ok(Message::Control(ControlMessage {
                length: json_u16(&v["length"])?,
                tunnel_id: json_u16(&v["tunnel_id"])?,
                session_id: json_u16(&v["session_id"])?,
                ns: json_u16(&v["ns"])?,
                nr: json_u16(&v["nr"])?,
                avps,
            }))
        }
        Some("Data") => Ok(Message::Data(DataMessage {
            is_prioritized: v["prio"].as_bool().ok_or("prio")?,
            length: match json_opt(&v["length"])? {
                None => None,
                Some(x) => Some(json_u16(x)?),
            },
            tunnel_id: json_u16(&v["tunnel_id"])?,
            session_id: json_u16(&v["session_id"])?,
            ns_nr: match json_opt(&v["ns_nr"])? {
                None => None,
                Some(p) => Some((json_u16(&p[0])?, json_u16(&p[1])?)),
            },
            offset: match json_opt(&v["offset"])? {
                None => None,
                Some(x) => Some(json_u16(x)?),
            },
            data: json_bytes(&v["data"])?,
        })),
        _ => Err("message without k".into()),
    }
}

pub fn err_to_json(e: &DecodeError) -> Value {
    use DecodeError::*;
    let (v, a): (&str, Vec<u64>) = match e {
        IncompleteAVP(x) => ("IncompleteAVP", vec![*x as u64]),
        UnknownMessageType(x) => ("UnknownMessageType", vec![*x as u64]),
        InvalidUtf8(x) => ("InvalidUtf8", vec![*x as u64]),
        InvalidResultCodeErrorType(x) => ("InvalidResultCodeErrorType", vec![*x as u64]),
        AVPReadError(x) => ("AVPReadError", vec![*x as u64]),
        InvalidAVPLength(x) => ("InvalidAVPLength", vec![*x as u64]),
        UnknownAvp(x) => ("UnknownAvp", vec![*x as u64]),
        EmptyHiddenAVP => ("EmptyHiddenAVP", vec![]),
        MisalignedHiddenAVP => ("MisalignedHiddenAVP", vec![]),
        InvalidOriginalAVPLength(x) => ("InvalidOriginalAVPLength", vec![*x as u64]),
        UnsupportedVendorId(x) => ("UnsupportedVendorId", vec![*x as u64]),
        InvalidVersion(x) => ("InvalidVersion", vec![*x as u64]),
        InvalidReservedBits => ("InvalidReservedBits", vec![]),
        IncompleteFlags => ("IncompleteFlags", vec![]),
        InvalidOffset(x) => ("InvalidOffset", vec![*x as u64]),
        IncompleteDataMessageHeader => ("IncompleteDataMessageHeader", vec![]),
        IncompleteDataMessagePayload => ("IncompleteDataMessagePayload", vec![]),
        EmptyDataMessagePayload => ("EmptyDataMessagePayload", vec![]),
        MessageReadError => ("MessageReadError", vec![]),
        ForbiddenControlMessagePriority => ("ForbiddenControlMessagePriority", vec![]),
        ForbiddenControlMessageOffset => ("ForbiddenControlMessageOffset", vec![]),
        ControlMessageWithoutLength => ("ControlMessageWithoutLength", vec![]),
        ControlMessageWithoutNsNr => ("ControlMessageWithoutNsNr", vec![]),
        IncompleteControlMessageHeader => ("IncompleteControlMessageHeader", vec![]),
        IncompleteControlMessagePayload => ("IncompleteControlMessagePayload", vec![]),
        ControlMessageTypeNotFirst => ("ControlMessageTypeNotFirst", vec![]),
    };
    json!({"v": v, "a": a})
}

pub fn err_from_json(v: &Value) -> Result<DecodeError, String> {
    use DecodeError::*;
    let name = v["v"].as_str().ok_or("error without v")?;
    let a = v["a"].as_array().ok_or("error without a")?;
    let x16 = || -> Result<u16, String> { json_u16(a.first().ok_or("missing arg")?) };
    Ok(match name {
        "IncompleteAVP" => IncompleteAVP(x16()?),
        "UnknownMessageType" => UnknownMessageType(x16()?),
        "InvalidUtf8" => InvalidUtf8(x16()?),
        "InvalidResultCodeErrorType" => InvalidResultCodeErrorType(x16()?),
        "AVPReadError" => AVPReadError(x16()?),
        "InvalidAVPLength" => InvalidAVPLength(x16()?),
        "UnknownAvp" => UnknownAvp(x16()?),
        "EmptyHiddenAVP" => EmptyHiddenAVP,
        "MisalignedHiddenAVP" => MisalignedHiddenAVP,
        "InvalidOriginalAVPLength" => InvalidOriginalAVPLength(x16()?),
        "UnsupportedVendorId" => UnsupportedVendorId(x16()?),
        "InvalidVersion" => InvalidVersion(json_u8(a.first().ok_or("missing arg")?)?),
        "InvalidReservedBits" => InvalidReservedBits,
        "IncompleteFlags" => IncompleteFlags,
        "InvalidOffset" => InvalidOffset(x16()?),
        "IncompleteDataMessageHeader" => IncompleteDataMessageHeader,
        "IncompleteDataMessagePayload" => IncompleteDataMessagePayload,
        "EmptyDataMessagePayload" => EmptyDataMessagePayload,
        "MessageReadError" => MessageReadError,
        "ForbiddenControlMessagePriority" => ForbiddenControlMessagePriority,
        "ForbiddenControlMessageOffset" => ForbiddenControlMessageOffset,
        "ControlMessageWithoutLength" => ControlMessageWithoutLength,
        "ControlMessageWithoutNsNr" => ControlMessageWithoutNsNr,
        "IncompleteControlMessageHeader" => IncompleteControlMessageHeader,
        "IncompleteControlMessagePayload" => IncompleteControlMessagePayload,
        "ControlMessageTypeNotFirst" => ControlMessageTypeNotFirst,
        other => return Err(format!("unknown error variant {other}")),
    })
}

pub fn item_to_json(r: &Result<AVP, DecodeError>) -> Value {
    match r {
        Ok(a) => json!({"t": "ok", "v": avp_to_json(a)}),
        Err(e) => json!({"t": "err", "v": err_to_json(e)}),
    }
}

pub fn msg_result_to_json<T: Borrow<[u8]>>(r: &Result<Message<T>, Vec<DecodeError>>) -> Value {
    match r {
        Ok(m) => json!({"t": "ok", "v": msg_to_json(m)}),
        Err(es) => json!({"t": "err", "v": es.iter().map(err_to_json).collect::<Vec<_>>()}),
    }
}

/// The per-type public readers, dispatched by attribute-type number in the harness (NOT through
/// the crate's decode_avp): lets C02/C05 drive each reader directly.  None for unassigned numbers.
pub fn per_type_read<T: Borrow<[u8]>>(t: u16, r: &mut impl Reader<T>) -> Option<Result<AVP, DecodeError>> {
    macro_rules! rd {
        ($ty:ident) => {
            Some(types::$ty::try_read(r).map(AVP::$ty))
        };
    }
    match t {
        0 => rd!(MessageType),
        1 => rd!(ResultCode),
        2 => rd!(ProtocolVersion),
        3 => rd!(FramingCapabilities),
        4 => rd!(BearerCapabilities),
        5 => rd!(TieBreaker),
        6 => rd!(FirmwareRevision),
        7 => rd!(HostName),
        8 => rd!(VendorName),
        9 => rd!(AssignedTunnelId),
        10 => rd!(ReceiveWindowSize),
        11 => rd!(Challenge),
        12 => rd!(Q931CauseCode),
        13 => rd!(ChallengeResponse),
        14 => rd!(AssignedSessionId),
        15 => rd!(CallSerialNumber),
        16 => rd!(MinimumBps),
        17 => rd!(MaximumBps),
        18 => rd!(BearerType),
        19 => rd!(FramingType),
        21 => rd!(CalledNumber),
        22 => rd!(CallingNumber),
        23 => rd!(SubAddress),
        24 => rd!(TxConnectSpeed),
        25 => rd!(PhysicalChannelId),
        26 => rd!(InitialReceivedLcpConfReq),
        27 => rd!(LastSentLcpConfReq),
        28 => rd!(LastReceivedLcpConfReq),
        29 => rd!(ProxyAuthenType),
        30 => rd!(ProxyAuthenName),
        31 => rd!(ProxyAuthenChallenge),
        32 => rd!(ProxyAuthenId),
        33 => rd!(ProxyAuthenResponse),
        34 => rd!(CallErrors),
        35 => rd!(Accm),
        36 => rd!(RandomVector),
        37 => rd!(PrivateGroupId),
        38 => rd!(RxConnectSpeed),
        _ => None,
    }
}
