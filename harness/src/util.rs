//! Small helpers: deterministic PRNG, JSON <-> octets.
use serde_json::{json, Value};

/// splitmix64-seeded xoshiro256** -- deterministic, no external crate.
#[derive(Clone)]
pub struct Rng {
    s: [u64; 4],
}

fn splitmix(x: &mut u64) -> u64 {
    *x = x.wrapping_add(0x9E37_79B9_7F4A_7C15);
    let mut z = *x;
    z = (z ^ (z >> 30)).wrapping_mul(0xBF58_476D_1CE4_E5B9);
    z = (z ^ (z >> 27)).wrapping_mul(0x94D0_49BB_1331_11EB);
    z ^ (z >> 31)
}

impl Rng {
    pub fn new(seed: u64) -> Self {
        let mut x = seed;
        let s = [splitmix(&mut x), splitmix(&mut x), splitmix(&mut x), splitmix(&mut x)];
        Rng { s }
    }
    pub fn fork(&mut self, tag: u64) -> Rng {
        Rng::new(self.next() ^ tag.wrapping_mul(0x9E37_79B9_7F4A_7C15))
    }
    pub fn next(&mut self) -> u64 {
        let r = self.s[1].wrapping_mul(5).rotate_left(7).wrapping_mul(9);
        let t = self.s[1] << 17;
        self.s[2] ^= self.s[0];
        self.s[3] ^= self.s[1];
        self.s[1] ^= self.s[2];
        self.s[0] ^= self.s[3];
        self.s[2] ^= t;
        self.s[3] = self.s[3].rotate_left(45);
        r
    }
    /// uniform in 0..n (n > 0)
    pub fn below(&mut self, n: u64) -> u64 {
        self.next() % n
    }
    pub fn range(&mut self, lo: u64, hi: u64) -> u64 {
        lo + self.below(hi - lo + 1)
    }
    pub fn bool(&mut self) -> bool {
        self.next() & 1 == 1
    }
    pub fn chance(&mut self, num: u64, den: u64) -> bool {
        self.below(den) < num
    }
    pub fn u8(&mut self) -> u8 {
        self.next() as u8
    }
    pub fn u16(&mut self) -> u16 {
        // bias towards boundary values
        match self.below(10) {
            0 => 0,
            1 => 0xffff,
            2 => self.below(4) as u16,
            3 => 0xff00 | self.u8() as u16,
            // values that collide with constants of the codec (header sizes, limits, type numbers, masks)
            4 => *self.pick(&[6u16, 8, 10, 12, 16, 20, 26, 32, 36, 39, 40, 64, 128, 255, 256, 511, 512, 1023, 1024, 4896, 0x3fff, 0x4000,
                              0x7fff, 0x8000, 0x8001, 0xc000, 0xfffe]),
            5 => self.below(64) as u16,
            _ => self.next() as u16,
        }
    }
    pub fn bytes(&mut self, n: usize) -> Vec<u8> {
        (0..n).map(|_| self.u8()).collect()
    }
    /// random octets, length uniform in lo..=hi
    pub fn rbytes(&mut self, lo: u64, hi: u64) -> Vec<u8> {
        let n = self.range(lo, hi) as usize;
        self.bytes(n)
    }
    pub fn pick<'a, T>(&mut self, xs: &'a [T]) -> &'a T {
        &xs[self.below(xs.len() as u64) as usize]
    }
}

pub fn bytes_json(b: &[u8]) -> Value {
    Value::Array(b.iter().map(|x| json!(*x)).collect())
}

pub fn json_bytes(v: &Value) -> Result<Vec<u8>, String> {
    let a = v.as_array().ok_or_else(|| format!("expected octet array, got {v}"))?;
    // built the way an application grows a buffer: the vector (and any String made from it) ends up
    // with spare capacity, which must make no difference to the codec
    let mut out = Vec::with_capacity(a.len() + 5 + a.len() % 11);
    for x in a {
        out.push(x.as_u64().filter(|n| *n <= 255).map(|n| n as u8).ok_or_else(|| format!("bad octet {x}"))?);
    }
    Ok(out)
}

pub fn json_u16(v: &Value) -> Result<u16, String> {
    v.as_u64().filter(|n| *n <= 0xffff).map(|n| n as u16).ok_or_else(|| format!("bad u16 {v}"))
}

pub fn json_u8(v: &Value) -> Result<u8, String> {
    v.as_u64().filter(|n| *n <= 0xff).map(|n| n as u8).ok_or_else(|| format!("bad u8 {v}"))
}

pub fn json_fixed<const N: usize>(v: &Value) -> Result<[u8; N], String> {
    let b = json_bytes(v)?;
    b.try_into().map_err(|_| format!("expected {N} octets"))
}

/// Option as [] / [x]
pub fn opt_json(o: Option<Value>) -> Value {
    match o {
        None => json!([]),
        Some(x) => json!([x]),
    }
}

pub fn json_opt(v: &Value) -> Result<Option<&Value>, String> {
    let a = v.as_array().ok_or_else(|| format!("expected option array, got {v}"))?;
    match a.len() {
        0 => Ok(None),
        1 => Ok(Some(&a[0])),
        _ => Err(format!("option array with {} elements", a.len())),
    }
}
