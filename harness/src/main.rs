//! rlv -- conformance harness binding the TLA+ specification of rl2tp to the real crate.
//!
//!   rlv worker <cases.ndjson> <events.ndjson> <progress-file> [start-index]
//!       executes cases (silently: the process itself prints nothing) and appends one or more
//!       NDJSON events per case.  The index of the case being run is kept in <progress-file> so
//!       that the orchestrator can attribute an abort / hang to it and resume after it.
//!   rlv gen <suite> <tier> <seed>
//!       prints generated cases (NDJSON) for a suite to stdout.
mod gen;
mod gen2;
mod mon;
mod proj;
mod util;
mod worker;

use serde_json::{json, Map, Value};
use std::io::{BufRead, BufReader, Write};
use std::mem::ManuallyDrop;
use std::os::fd::FromRawFd;

fn fd_size(fd: i32) -> u64 {
    let f = ManuallyDrop::new(unsafe { std::fs::File::from_raw_fd(fd) });
    f.metadata().map(|m| m.len()).unwrap_or(0)
}

fn io_now() -> (u64, u64) {
    let _ = std::io::stdout().flush();
    let _ = std::io::stderr().flush();
    (fd_size(1), fd_size(2))
}

fn build_name() -> &'static str {
    if cfg!(debug_assertions) {
        "dev"
    } else {
        "rel"
    }
}

fn base_event(c: &Value) -> Map<String, Value> {
    let mut ev = Map::new();
    if let Some(o) = c.as_object() {
        for (k, v) in o {
            if k != "op" {
                ev.insert(k.clone(), v.clone());
            }
        }
    }
    ev.insert("e".into(), c["op"].clone());
    ev
}

fn run_threads(c: &Value) -> Vec<Value> {
    let n = c["n"].as_u64().unwrap_or(8) as usize;
    let calls: Vec<Value> = c["calls"].as_array().cloned().unwrap_or_default();
    let rounds = c["rounds"].as_u64().unwrap_or(1) as usize;
    let barrier = std::sync::Arc::new(std::sync::Barrier::new(n));
    let mut handles = Vec::new();
    for t in 0..n {
        let calls = calls.clone();
        let barrier = barrier.clone();
        handles.push(std::thread::spawn(move || {
            barrier.wait();
            let mut evs = Vec::new();
            let k = calls.len();
            for round in 0..rounds {
                for j in 0..k {
                    // each thread walks the calls in its own rotation (and each round in another
                    // order) so that different calls overlap and follow different histories
                    let idx = if round % 2 == 0 { (j + t + 7 * round) % k } else { (k - 1 - j + t + 7 * round) % k };
                    let c = &calls[idx];
                    let mut ev = base_event(c);
                    if let Err(e) = worker::run_op(c, &mut ev) {
                        ev.insert("harness_error".into(), json!(e));
                    }
                    // signature of everything observable about this call (before the thread / round
                    // bookkeeping is added): equal calls must have equal signatures (C19)
                    let sig = Value::Object(ev.clone()).to_string();
                    ev.insert("sig".into(), json!(sig));
                    ev.insert("call".into(), json!(idx));
                    ev.insert("thread".into(), json!(t));
                    ev.insert("seq".into(), json!(round * k + j));
                    evs.push(Value::Object(ev));
                }
            }
            evs
        }));
    }
    let mut all = Vec::new();
    for h in handles {
        match h.join() {
            Ok(evs) => all.extend(evs),
            Err(_) => all.push(json!({"e": "thread_died"})),
        }
    }
    all
}

fn worker_main(args: &[String]) -> i32 {
    if args.len() < 3 {
        eprintln!("usage: rlv worker <cases> <events> <progress> [start]");
        return 2;
    }
    let start: usize = args.get(3).and_then(|s| s.parse().ok()).unwrap_or(0);
    // the library must not print; neither does the harness (panics are data, not text)
    std::panic::set_hook(Box::new(|_| {}));
    let cases = match std::fs::File::open(&args[0]) {
        Ok(f) => BufReader::new(f),
        Err(e) => {
            eprintln!("cannot open cases: {e}");
            return 2;
        }
    };
    let mut out = match std::fs::OpenOptions::new().create(true).append(true).open(&args[1]) {
        Ok(f) => std::io::BufWriter::new(f),
        Err(e) => {
            eprintln!("cannot open events: {e}");
            return 2;
        }
    };
    let build = build_name();
    let progress = match std::fs::OpenOptions::new().create(true).write(true).truncate(true).open(&args[2]) {
        Ok(f) => f,
        Err(e) => {
            eprintln!("cannot open progress file: {e}");
            return 2;
        }
    };
    let mark = |s: &str| {
        use std::os::unix::fs::FileExt;
        let _ = progress.write_all_at(format!("{s:<12}").as_bytes(), 0);
    };
    for (idx, line) in cases.lines().enumerate() {
        let Ok(line) = line else { break };
        if idx < start || line.trim().is_empty() {
            continue;
        }
        let c: Value = match serde_json::from_str(&line) {
            Ok(v) => v,
            Err(e) => {
                let _ = writeln!(out, "{}", json!({"e": "bad_case", "idx": idx, "harness_error": e.to_string()}));
                continue;
            }
        };
        let _ = out.flush();
        mark(&idx.to_string());
        let io0 = io_now();
        let evs: Vec<Value> = if c["op"] == "threads" {
            run_threads(&c)
        } else {
            let mut ev = base_event(&c);
            if let Err(e) = worker::run_op(&c, &mut ev) {
                ev.insert("harness_error".into(), json!(e));
            }
            vec![Value::Object(ev)]
        };
        let io1 = io_now();
        for mut ev in evs {
            if let Some(m) = ev.as_object_mut() {
                m.insert("idx".into(), json!(idx));
                m.insert("build".into(), json!(build));
                m.insert("io".into(), json!([io1.0 - io0.0, io1.1 - io0.1]));
            }
            let _ = writeln!(out, "{ev}");
        }
    }
    let _ = out.flush();
    mark("done");
    0
}

fn main() {
    let args: Vec<String> = std::env::args().skip(1).collect();
    let code = match args.first().map(|s| s.as_str()) {
        Some("worker") => worker_main(&args[1..]),
        Some("gen") => gen::gen_main(&args[1..]),
        _ => {
            eprintln!("usage: rlv worker|gen ...");
            2
        }
    };
    std::process::exit(code);
}
