//! Executes cases against the real crate and emits one event per linearization point
//! (the public call's return, error and panic paths included).
#[cfg(feature = "custom_writers")]
use crate::mon::MonWriter;
#[cfg(feature = "custom_readers")]
use crate::mon::{DequeReader, MonReader};
use crate::proj::*;
use crate::util::*;
use rl2tp::avp::types::{self, result_code};
use rl2tp::avp::AVP;
use rl2tp::common::{DecodeError, Reader, SliceReader, VecWriter, Writer};
use rl2tp::{Message, ValidateReserved, ValidateUnused, ValidateVersion, ValidationOptions};
use serde_json::{json, Map, Value};
use std::panic::{catch_unwind, AssertUnwindSafe};

fn opts_from(v: &Value) -> ValidationOptions {
    let b = |i: usize| v[i].as_bool().unwrap_or(false);
    ValidationOptions {
        reserved: if b(0) { ValidateReserved::Yes } else { ValidateReserved::No },
        version: if b(1) { ValidateVersion::Yes } else { ValidateVersion::No },
        unused: if b(2) { ValidateUnused::Yes } else { ValidateUnused::No },
    }
}

fn strict() -> ValidationOptions {
    ValidationOptions { reserved: ValidateReserved::Yes, version: ValidateVersion::Yes, unused: ValidateUnused::Yes }
}

fn panic_text(p: Box<dyn std::any::Any + Send>) -> String {
    if let Some(s) = p.downcast_ref::<&str>() {
        s.to_string()
    } else if let Some(s) = p.downcast_ref::<String>() {
        s.clone()
    } else {
        "non-string panic payload".to_string()
    }
}

/// run f; Ok(value) or the panic as {"t":"panic","v":text}
fn guarded<R>(f: impl FnOnce() -> R) -> Result<R, Value> {
    catch_unwind(AssertUnwindSafe(f)).map_err(|p| json!({"t": "panic", "v": panic_text(p)}))
}

fn decode_with<T: core::borrow::Borrow<[u8]>>(r: &mut impl Reader<T>, c: &Value) -> (Value, Value) {
    let entry = c["entry"].as_str().unwrap_or("validate");
    let res = if entry == "default" {
        Message::<T>::try_read(r)
    } else {
        Message::<T>::try_read_validate(r, opts_from(&c["opts"]))
    };
    (msg_result_to_json(&res), json!(r.len()))
}

/// run `f` with each requested reader implementation over `input`.
/// rdr = "slice" | "mon" | "deque": one run, result fields go straight into the event;
/// rdr = "all": the three readers in turn, results as the list `outs` (C02: every conforming
/// reader gives the same result).
fn with_readers(
    c: &Value,
    ev: &mut Map<String, Value>,
    input: &[u8],
    f: &dyn Fn(&str, &[u8]) -> (Result<(Value, Value), Value>, Option<Value>),
) -> Result<(), String> {
    let rdr = c["rdr"].as_str().unwrap_or("slice");
    let pack = |name: &str, o: Result<(Value, Value), Value>, calls: Option<Value>| -> Map<String, Value> {
        let mut m = Map::new();
        m.insert("rdr".into(), json!(name));
        match o {
            Ok((o, rem)) => {
                m.insert("out".into(), o);
                m.insert("rem".into(), rem);
            }
            Err(p) => {
                m.insert("out".into(), p);
                m.insert("rem".into(), json!(0));
            }
        }
        if let Some(cl) = calls {
            m.insert("calls".into(), cl);
        }
        m
    };
    match rdr {
        "slice" | "mon" | "deque" => {
            let rdr = if cfg!(feature = "custom_readers") { rdr } else { "slice" };
            let (o, calls) = f(rdr, input);
            for (k, v) in pack(rdr, o, calls) {
                ev.insert(k, v);
            }
        }
        #[cfg(not(feature = "custom_readers"))]
        "all" => {
            let (o, calls) = f("slice", input);
            for (k, v) in pack("slice", o, calls) {
                ev.insert(k, v);
            }
        }
        #[cfg(feature = "custom_readers")]
        "all" => {
            let mut outs = Vec::new();
            for name in ["slice", "mon", "deque"] {
                let (o, calls) = f(name, input);
                outs.push(Value::Object(pack(name, o, calls)));
            }
            ev.insert("outs".into(), Value::Array(outs));
        }
        other => return Err(format!("unknown reader {other}")),
    }
    Ok(())
}

/// generic over the reader: run `g` on a reader of the named implementation
#[cfg(not(feature = "custom_readers"))]
macro_rules! on_reader {
    // fallback build (the crate's Reader trait no longer admits the harness's implementations): SliceReader only
    ($name:expr, $input:expr, $g:expr) => {{
        let _ = $name;
        let mut r = SliceReader::from($input);
        (guarded(|| $g(&mut r)), None)
    }};
}

#[cfg(feature = "custom_readers")]
macro_rules! on_reader {
    ($name:expr, $input:expr, $g:expr) => {{
        match $name {
            "mon" => {
                let (mut r, log) = MonReader::new($input.to_vec());
                let o = guarded(|| $g(&mut r));
                let calls = Value::Array(std::mem::take(&mut log.borrow_mut().calls));
                (o, Some(calls))
            }
            "deque" => {
                let mut r = DequeReader::new($input);
                (guarded(|| $g(&mut r)), None)
            }
            _ => {
                let mut r = SliceReader::from($input);
                (guarded(|| $g(&mut r)), None)
            }
        }
    }};
}

fn op_decode(c: &Value, ev: &mut Map<String, Value>) -> Result<(), String> {
    let input = json_bytes(&c["in"])?;
    with_readers(c, ev, &input, &|name, input| on_reader!(name, input, |r| decode_with(r, c)))
}

fn avps_with<T: core::borrow::Borrow<[u8]>>(r: &mut impl Reader<T>) -> (Value, Value) {
    let items = AVP::try_read_greedy(r);
    (json!({"t": "list", "v": items.iter().map(item_to_json).collect::<Vec<_>>()}), json!(r.len()))
}

fn op_decode_avps(c: &Value, ev: &mut Map<String, Value>) -> Result<(), String> {
    let input = json_bytes(&c["in"])?;
    with_readers(c, ev, &input, &|name, input| on_reader!(name, input, |r| avps_with(r)))
}

fn payload_with<T: core::borrow::Borrow<[u8]>>(t: u16, r: &mut impl Reader<T>) -> (Value, Value) {
    match per_type_read(t, r) {
        Some(it) => (item_to_json(&it), json!(r.len())),
        None => (json!({"t": "none"}), json!(r.len())),
    }
}

/// the public per-type readers, called directly
fn op_decode_payload(c: &Value, ev: &mut Map<String, Value>) -> Result<(), String> {
    let input = json_bytes(&c["in"])?;
    let t = json_u16(&c["t"])?;
    with_readers(c, ev, &input, &|name, input| on_reader!(name, input, |r| payload_with(t, r)))
}

/// messages packed back to back in one buffer, decoded one after another from ONE reader
fn op_decode_seq(c: &Value, ev: &mut Map<String, Value>) -> Result<(), String> {
    let input = json_bytes(&c["in"])?;
    let max = c["max"].as_u64().unwrap_or(16) as usize;
    let mut steps = Vec::new();
    let mut r = SliceReader::from(&input[..]);
    for _ in 0..max {
        if r.is_empty() {
            break;
        }
        let before = r.len();
        let o = guarded(|| decode_with(&mut r, c));
        match o {
            Ok((o, rem)) => {
                let failed = o["t"] != "ok";
                steps.push(json!({"start": input.len() - before, "out": o, "rem": rem}));
                if failed {
                    break;
                }
            }
            Err(p) => {
                steps.push(json!({"start": input.len() - before, "out": p, "rem": 0}));
                break;
            }
        }
    }
    ev.insert("steps".into(), Value::Array(steps));
    Ok(())
}

/// the same input under all 8 option sets and through the default entry point (C14)
fn op_decode_opts(c: &Value, ev: &mut Map<String, Value>) -> Result<(), String> {
    let input = json_bytes(&c["in"])?;
    let mut outs = Vec::new();
    for i in 0..9u8 {
        let (opts, entry) = if i == 8 {
            (json!([false, true, false]), "default")
        } else {
            (json!([i & 1 != 0, i & 2 != 0, i & 4 != 0]), "validate")
        };
        let cc = json!({"opts": opts, "entry": entry});
        let o = guarded(|| {
            let mut r = SliceReader::from(&input[..]);
            decode_with(&mut r, &cc)
        });
        let (out, rem) = match o {
            Ok((o, rem)) => (o, rem),
            Err(p) => (p, json!(0)),
        };
        outs.push(json!({"opts": cc["opts"], "entry": entry, "out": out, "rem": rem}));
    }
    ev.insert("outs".into(), Value::Array(outs));
    Ok(())
}

/// C14: the same octets with single header bits toggled, all decoded with every check switched off:
/// bits that are only looked at by a check must then not affect the result
fn op_decode_bits(c: &Value, ev: &mut Map<String, Value>) -> Result<(), String> {
    let input = json_bytes(&c["in"])?;
    if input.len() < 2 {
        ev.insert("variants".into(), json!([]));
        return Ok(());
    }
    let cc = json!({"opts": [false, false, false], "entry": "validate"});
    let mut variants = Vec::new();
    for bit in -1i32..16 {
        let mut b = input.clone();
        if bit >= 0 {
            let w = u16::from_be_bytes([b[0], b[1]]) ^ (1u16 << bit);
            b[0..2].copy_from_slice(&w.to_be_bytes());
        }
        let o = guarded(|| {
            let mut r = SliceReader::from(&b[..]);
            decode_with(&mut r, &cc)
        });
        let (out, rem) = match o {
            Ok((o, rem)) => (o, rem),
            Err(p) => (p, json!(0)),
        };
        variants.push(json!({"bit": bit, "out": out, "rem": rem}));
    }
    ev.insert("variants".into(), Value::Array(variants));
    Ok(())
}

/// C20, exhaustively: a 16-bit field of a message is swept over lo..=hi; for every value the strict decode
/// must be exactly Err([variant(value)]).  The values for which it is not are returned (with what came
/// out instead); the specification validates the scheme on the sample values it is given.
fn op_fault_sweep(c: &Value, ev: &mut Map<String, Value>) -> Result<(), String> {
    let template = json_bytes(&c["in"])?;
    let at = c["at"].as_u64().ok_or("at")? as usize;
    let lo = c["lo"].as_u64().unwrap_or(0) as u32;
    let hi = c["hi"].as_u64().unwrap_or(65535) as u32;
    let variant = c["variant"].as_str().ok_or("variant")?.to_string();
    if at + 2 > template.len() {
        return Err("field outside the template".into());
    }
    let o = guarded(|| {
        let mut anomalies = Vec::new();
        let mut tested = 0u64;
        for x in lo..=hi {
            let mut b = template.clone();
            b[at..at + 2].copy_from_slice(&(x as u16).to_be_bytes());
            let res = catch_unwind(AssertUnwindSafe(|| {
                let mut r = SliceReader::from(&b[..]);
                Message::<&[u8]>::try_read_validate(&mut r, strict())
            }));
            tested += 1;
            let ok = match &res {
                Ok(Err(es)) if es.len() == 1 => {
                    let j = err_to_json(&es[0]);
                    j["v"] == variant.as_str() && j["a"] == json!([x])
                }
                _ => false,
            };
            if !ok && anomalies.len() < 50 {
                let out = match res {
                    Ok(r) => msg_result_to_json(&r),
                    Err(_) => json!({"t": "panic"}),
                };
                anomalies.push(json!([x, out]));
            }
        }
        (anomalies, tested)
    });
    match o {
        Ok((anomalies, tested)) => {
            ev.insert("anomalies".into(), Value::Array(anomalies));
            ev.insert("tested".into(), json!(tested));
            ev.insert("out".into(), json!({"t": "ok"}));
        }
        Err(p) => {
            ev.insert("out".into(), p);
        }
    }
    Ok(())
}

/// decode(b) and decode(b ++ suffix) (C08)
fn op_decode_suffix(c: &Value, ev: &mut Map<String, Value>) -> Result<(), String> {
    let input = json_bytes(&c["in"])?;
    let suffix = json_bytes(&c["suffix"])?;
    let mut both = input.clone();
    both.extend_from_slice(&suffix);
    for (name, data) in [("a", &input), ("b", &both)] {
        let o = guarded(|| {
            let mut r = SliceReader::from(&data[..]);
            decode_with(&mut r, c)
        });
        let (out, rem) = match o {
            Ok((o, rem)) => (o, rem),
            Err(p) => (p, json!(0)),
        };
        ev.insert(format!("out_{name}"), out);
        ev.insert(format!("rem_{name}"), rem);
    }
    Ok(())
}

/// decode_avps(r1 ++ .. ++ rk) and decode_avps(ri) for each i (C08)
fn op_avps_concat(c: &Value, ev: &mut Map<String, Value>) -> Result<(), String> {
    let recs: Vec<Vec<u8>> = c["recs"].as_array().ok_or("recs")?.iter().map(json_bytes).collect::<Result<_, _>>()?;
    let whole: Vec<u8> = recs.iter().flatten().copied().collect();
    let run = |data: &[u8]| -> Value {
        match guarded(|| {
            let mut r = SliceReader::from(data);
            avps_with(&mut r)
        }) {
            Ok((o, rem)) => json!({"out": o, "rem": rem}),
            Err(p) => json!({"out": p, "rem": 0}),
        }
    };
    ev.insert("whole".into(), run(&whole));
    ev.insert("parts".into(), Value::Array(recs.iter().map(|r| run(r)).collect()));
    Ok(())
}

/// C15: a control message assembled from records; every record also decoded alone
fn op_ctl_records(c: &Value, ev: &mut Map<String, Value>) -> Result<(), String> {
    let input = json_bytes(&c["in"])?;
    let recs: Vec<Vec<u8>> = c["recs"].as_array().ok_or("recs")?.iter().map(json_bytes).collect::<Result<_, _>>()?;
    let run = |data: &[u8]| -> Value {
        match guarded(|| {
            let mut r = SliceReader::from(data);
            avps_with(&mut r)
        }) {
            Ok((o, rem)) => json!({"out": o, "rem": rem}),
            Err(p) => json!({"out": p, "rem": 0}),
        }
    };
    ev.insert("parts".into(), Value::Array(recs.iter().map(|r| run(r)).collect()));
    let cc = json!({"opts": [true, true, true], "entry": "validate"});
    let o = guarded(|| {
        let mut r = SliceReader::from(&input[..]);
        decode_with(&mut r, &cc)
    });
    match o {
        Ok((o, rem)) => {
            ev.insert("out".into(), o);
            ev.insert("rem".into(), rem);
        }
        Err(p) => {
            ev.insert("out".into(), p);
            ev.insert("rem".into(), json!(0));
        }
    }
    Ok(())
}

enum Val {
    Msg(Message<Vec<u8>>),
    Avp(AVP),
}

fn val_from(kind: &str, v: &Value) -> Result<Val, String> {
    match kind {
        "msg" => Ok(Val::Msg(msg_from_json(v)?)),
        "avp" => Ok(Val::Avp(avp_from_json(v)?)),
        other => Err(format!("unknown value kind {other}")),
    }
}

fn write_val(val: &Val, w: &mut impl Writer) {
    match val {
        Val::Msg(m) => m.write(w),
        Val::Avp(a) => a.write(w),
    }
}

/// encode one value into a writer that already holds `prefix`
fn op_encode(c: &Value, ev: &mut Map<String, Value>) -> Result<(), String> {
    let val = val_from(c["kind"].as_str().unwrap_or("msg"), &c["v"])?;
    let prefix = if c["prefix"].is_null() { Vec::new() } else { json_bytes(&c["prefix"])? };
    let wr = c["wr"].as_str().unwrap_or("vec");
    if let Val::Avp(a) = &val {
        match guarded(|| a.get_length()) {
            // (a panic inside get_length, or a wrapped value, is data: reported apart so that the numeric field
            // stays numeric and within the specification's integers)
            Ok(n) if n <= 2_000_000_000 => ev.insert("glen".into(), json!(n)),
            Ok(_) => ev.insert("glen_bad".into(), json!("huge")),
            Err(_) => ev.insert("glen_bad".into(), json!("panic")),
        };
    }
    if !prefix.is_empty() || wr == "sparse" {
        // the implementation's own encoding of the same value into an empty writer (C09 compares with it)
        let mut w0 = VecWriter::new();
        let o = guarded(|| write_val(&val, &mut w0));
        ev.insert(
            "solo".into(),
            match o {
                Ok(()) => json!({"t": "ok", "v": bytes_json(&w0.data)}),
                Err(p) => p,
            },
        );
    }
    if let Some(fill) = c.get("prefix_fill").filter(|x| !x.is_null()) {
        // a VecWriter that really holds `len` octets (all equal to `byte`, capacity exactly full): too large to log,
        // so the harness itself checks that they are untouched and reports only what was appended
        let n = fill["len"].as_u64().unwrap_or(0) as usize;
        let b = fill["byte"].as_u64().unwrap_or(0) as u8;
        let mut w0 = VecWriter::new();
        let o = guarded(|| write_val(&val, &mut w0));
        ev.insert("solo".into(), match o { Ok(()) => json!({"t": "ok", "v": bytes_json(&w0.data)}), Err(p) => p });
        let mut w = VecWriter::new();
        w.data = vec![b; n];
        let o = guarded(|| write_val(&val, &mut w));
        let intact = w.data.len() >= n && w.data[..n].iter().all(|x| *x == b);
        ev.insert("prefix_ok".into(), json!(intact));
        ev.insert("out".into(), match o {
            Ok(()) => json!({"t": "ok", "v": bytes_json(if w.data.len() >= n { &w.data[n..] } else { &[] })}),
            Err(p) => p,
        });
        return Ok(());
    }
    match wr {
        "vec" => {
            let mut w = VecWriter::new();
            w.data.extend_from_slice(&prefix);
            let o = guarded(|| write_val(&val, &mut w));
            ev.insert(
                "out".into(),
                match o {
                    Ok(()) => json!({"t": "ok", "v": bytes_json(&w.data)}),
                    Err(p) => p,
                },
            );
        }
        #[cfg(not(feature = "custom_writers"))]
        "mon" | "sparse" => {
            // fallback build (the crate's Writer trait no longer admits the harness's implementations)
            let mut w = VecWriter::new();
            w.data.extend_from_slice(&prefix);
            let o = guarded(|| write_val(&val, &mut w));
            ev.insert(
                "out".into(),
                match o {
                    Ok(()) => json!({"t": "ok", "v": bytes_json(&w.data)}),
                    Err(p) => p,
                },
            );
        }
        #[cfg(feature = "custom_writers")]
        "mon" => {
            let mut w = MonWriter::with_prefix(&prefix);
            let o = guarded(|| write_val(&val, &mut w));
            ev.insert(
                "out".into(),
                match o {
                    Ok(()) => json!({"t": "ok", "v": bytes_json(&w.data)}),
                    Err(p) => p,
                },
            );
            ev.insert("calls".into(), Value::Array(w.calls));
        }
        #[cfg(feature = "custom_writers")]
        "sparse" => {
            // a writer that behaves as if it already held 2^k + add octets; everything is logged relative to that
            let k = c["vbase_log2"].as_u64().unwrap_or(32) as u32;
            let add = c["vbase_add"].as_i64().unwrap_or(0);
            let vbase = ((1u64 << k) as i128 + add as i128) as usize;
            let mut w = crate::mon::SparseWriter::new(vbase);
            let o = guarded(|| write_val(&val, &mut w));
            ev.insert(
                "out".into(),
                match o {
                    Ok(()) => json!({"t": "ok", "v": bytes_json(&w.data)}),
                    Err(p) => p,
                },
            );
            ev.insert("calls".into(), Value::Array(w.calls));
        }
        other => return Err(format!("unknown writer {other}")),
    }
    Ok(())
}

/// several values encoded one after another into ONE writer
fn op_encode_seq(c: &Value, ev: &mut Map<String, Value>) -> Result<(), String> {
    let items = c["items"].as_array().ok_or("items")?;
    let mut w = VecWriter::new();
    let mut outs = Vec::new();
    let mut solos = Vec::new();
    for it in items {
        let val = val_from(it["kind"].as_str().unwrap_or("msg"), &it["v"])?;
        let mut w0 = VecWriter::new();
        solos.push(match guarded(|| write_val(&val, &mut w0)) {
            Ok(()) => json!({"t": "ok", "v": bytes_json(&w0.data)}),
            Err(p) => p,
        });
    }
    ev.insert("solos".into(), Value::Array(solos));
    for it in items {
        let val = val_from(it["kind"].as_str().unwrap_or("msg"), &it["v"])?;
        let o = guarded(|| write_val(&val, &mut w));
        match o {
            Ok(()) => outs.push(json!({"t": "ok", "len": w.data.len()})),
            Err(p) => {
                outs.push(p);
                break;
            }
        }
    }
    ev.insert("outs".into(), Value::Array(outs));
    ev.insert("buf".into(), bytes_json(&w.data));
    Ok(())
}

/// encode then decode under the strictest options (C03 / C04)
fn op_roundtrip(c: &Value, ev: &mut Map<String, Value>) -> Result<(), String> {
    let val = val_from(c["kind"].as_str().unwrap_or("msg"), &c["v"])?;
    let mut w = VecWriter::new();
    if let Err(p) = guarded(|| write_val(&val, &mut w)) {
        ev.insert("enc".into(), p);
        return Ok(());
    }
    ev.insert("enc".into(), json!({"t": "ok", "v": bytes_json(&w.data)}));
    let octets = w.data;
    match &val {
        Val::Msg(m) => {
            let o = guarded(|| {
                let mut r = SliceReader::from(&octets[..]);
                let res = Message::<&[u8]>::try_read_validate(&mut r, strict());
                // native comparison with the expected value
                let eq = match (&res, m) {
                    (Ok(Message::Control(got)), Message::Control(orig)) => {
                        let mut exp = orig.clone();
                        exp.length = octets.len() as u16;
                        *got == exp
                    }
                    (Ok(Message::Data(got)), Message::Data(orig)) => {
                        let n = orig.offset.unwrap_or(0) as usize;
                        got.is_prioritized == orig.is_prioritized
                            && got.length == orig.length
                            && got.tunnel_id == orig.tunnel_id
                            && got.session_id == orig.session_id
                            && got.ns_nr == orig.ns_nr
                            && got.offset.is_none()
                            && n <= orig.data.len()
                            && got.data == &orig.data[n..]
                    }
                    _ => false,
                };
                (msg_result_to_json(&res), r.len(), eq)
            });
            match o {
                Ok((o, rem, eq)) => {
                    ev.insert("dec".into(), o);
                    ev.insert("rem".into(), json!(rem));
                    ev.insert("eq".into(), json!(eq));
                }
                Err(p) => {
                    ev.insert("dec".into(), p);
                    ev.insert("rem".into(), json!(0));
                    ev.insert("eq".into(), json!(false));
                }
            }
        }
        Val::Avp(a) => {
            let o = guarded(|| {
                let mut r = SliceReader::from(&octets[..]);
                let items = AVP::try_read_greedy(&mut r);
                let eq = items.len() == 1 && items[0].as_ref().ok() == Some(a);
                (json!({"t": "list", "v": items.iter().map(item_to_json).collect::<Vec<_>>()}), r.len(), eq)
            });
            match o {
                Ok((o, rem, eq)) => {
                    ev.insert("dec".into(), o);
                    ev.insert("rem".into(), json!(rem));
                    ev.insert("eq".into(), json!(eq));
                }
                Err(p) => {
                    ev.insert("dec".into(), p);
                    ev.insert("rem".into(), json!(0));
                    ev.insert("eq".into(), json!(false));
                }
            }
        }
    }
    Ok(())
}

fn to_owned_msg(m: &Message<&[u8]>) -> Message<Vec<u8>> {
    match m {
        Message::Control(c) => Message::Control(c.clone()),
        Message::Data(d) => Message::Data(rl2tp::DataMessage {
            is_prioritized: d.is_prioritized,
            length: d.length,
            tunnel_id: d.tunnel_id,
            session_id: d.session_id,
            ns_nr: d.ns_nr,
            offset: d.offset,
            data: d.data.to_vec(),
        }),
    }
}

/// decode -> encode -> strict decode -> encode (C10); each stage guarded on its own
fn op_chain(c: &Value, ev: &mut Map<String, Value>) -> Result<(), String> {
    let input = json_bytes(&c["in"])?;
    let m1 = match guarded(|| {
        let mut r = SliceReader::from(&input[..]);
        Message::<&[u8]>::try_read_validate(&mut r, opts_from(&c["opts"])).map(|m| to_owned_msg(&m))
    }) {
        Ok(m) => m,
        Err(p) => {
            ev.insert("m1".into(), p);
            return Ok(());
        }
    };
    ev.insert("m1".into(), msg_result_to_json(&m1));
    let Ok(m1) = m1 else { return Ok(()) };
    let mut w1 = VecWriter::new();
    if guarded(|| m1.write(&mut w1)).is_err() {
        ev.insert("stage_panic".into(), json!("b1"));
        return Ok(());
    }
    ev.insert("b1".into(), bytes_json(&w1.data));
    let m2 = match guarded(|| {
        let mut r2 = SliceReader::from(&w1.data[..]);
        Message::<&[u8]>::try_read_validate(&mut r2, strict()).map(|m| to_owned_msg(&m))
    }) {
        Ok(m) => m,
        Err(_) => {
            ev.insert("stage_panic".into(), json!("m2"));
            return Ok(());
        }
    };
    ev.insert("m2".into(), msg_result_to_json(&m2));
    let Ok(m2) = m2 else { return Ok(()) };
    let eq = match (&m1, &m2) {
        (Message::Control(a), Message::Control(b)) => {
            let mut a2 = a.clone();
            a2.length = b.length;
            a2 == *b
        }
        (a, b) => a == b,
    };
    ev.insert("eq".into(), json!(eq));
    let mut w2 = VecWriter::new();
    if guarded(|| m2.write(&mut w2)).is_err() {
        ev.insert("stage_panic".into(), json!("b2"));
        return Ok(());
    }
    ev.insert("b2".into(), bytes_json(&w2.data));
    Ok(())
}

fn rv_from(v: &Value) -> Result<types::RandomVector, String> {
    Ok(types::RandomVector { value: json_fixed::<4>(v)? })
}

fn reveal_json(r: &Result<AVP, DecodeError>) -> Value {
    item_to_json(r)
}

fn op_hide(c: &Value, ev: &mut Map<String, Value>) -> Result<(), String> {
    let a = avp_from_json(&c["v"])?;
    let secret = json_bytes(&c["secret"])?;
    let rv = rv_from(&c["rv"])?;
    let lp = json_bytes(&c["lp"])?;
    let ap = json_fixed::<16>(&c["ap"])?;
    let o = guarded(|| a.clone().hide(&secret, &rv, &lp, &ap));
    match o {
        Ok(h) => {
            ev.insert("out".into(), json!({"t": "ok", "v": avp_to_json(&h)}));
            // wire form of the hidden AVP (hidden bit, clear attribute type)
            if let Ok(enc) = guarded(|| {
                let mut w = VecWriter::new();
                h.write(&mut w);
                w.data
            }) {
                ev.insert("enc".into(), bytes_json(&enc));
            }
        }
        Err(p) => {
            ev.insert("out".into(), p);
        }
    }
    Ok(())
}

fn op_reveal(c: &Value, ev: &mut Map<String, Value>) -> Result<(), String> {
    let secret = json_bytes(&c["secret"])?;
    let rv = rv_from(&c["rv"])?;
    // a case may give the DECRYPTED plaintext instead of the hidden value (behaviours exported by the
    // TLC model of the reveal machine): the hidden value that decrypts to it is crafted here
    let a = if c["v"].is_null() {
        let t = json_u16(&c["t"])?;
        let plain = json_bytes(&c["plain"])?;
        let value = if !plain.is_empty() && plain.len() % 16 == 0 {
            crate::gen2::craft_hidden(t, &plain, &secret, &rv.value)
        } else {
            plain
        };
        let v = json!({"k": "Hidden", "f": [t, bytes_json(&value)]});
        ev.insert("v".into(), v.clone());
        avp_from_json(&v)?
    } else {
        avp_from_json(&c["v"])?
    };
    let o = guarded(|| a.clone().reveal(&secret, &rv));
    ev.insert(
        "out".into(),
        match o {
            Ok(r) => reveal_json(&r),
            Err(p) => p,
        },
    );
    Ok(())
}

/// hide, reveal directly, and reveal after an encode/decode of the hidden AVP (C11)
fn op_hide_reveal(c: &Value, ev: &mut Map<String, Value>) -> Result<(), String> {
    let a = avp_from_json(&c["v"])?;
    let secret = json_bytes(&c["secret"])?;
    let rv = rv_from(&c["rv"])?;
    let lp = json_bytes(&c["lp"])?;
    let ap = json_fixed::<16>(&c["ap"])?;
    let between: Option<(AVP, Vec<u8>, types::RandomVector)> = if c["between"].is_null() {
        None
    } else {
        Some((avp_from_json(&c["between"]["v"])?, json_bytes(&c["between"]["secret"])?, rv_from(&c["between"]["rv"])?))
    };
    // stage 1: hide and reveal directly
    let s1 = guarded(|| {
        let mut out: Vec<(&str, Value)> = Vec::new();
        let h = a.clone().hide(&secret, &rv, &lp, &ap);
        out.push(("h", avp_to_json(&h)));
        // optionally an unrelated hide between hiding and revealing (results must not depend on it)
        if let Some(b) = between.as_ref() {
            let _ = b.0.clone().hide(&b.1, &b.2, &[], &ap);
        }
        let r1 = h.clone().reveal(&secret, &rv);
        out.push(("r1", reveal_json(&r1)));
        out.push(("eq1", json!(r1.as_ref().ok() == Some(&a))));
        (out, h)
    });
    let h = match s1 {
        Ok((fields, h)) => {
            for (k, v) in fields {
                ev.insert(k.into(), v);
            }
            h
        }
        Err(p) => {
            ev.insert("h".into(), p);
            return Ok(());
        }
    };
    // stage 2: through the wire (refused by the encoder when the hidden AVP no longer fits 1023 octets)
    let s2 = guarded(|| {
        let mut out: Vec<(&str, Value)> = Vec::new();
        let mut w = VecWriter::new();
        h.write(&mut w);
        out.push(("enc", bytes_json(&w.data)));
        let mut r = SliceReader::from(&w.data[..]);
        let items = AVP::try_read_greedy(&mut r);
        out.push(("dec", json!(items.iter().map(item_to_json).collect::<Vec<_>>())));
        if items.len() == 1 {
            if let Ok(d) = &items[0] {
                let r2 = d.clone().reveal(&secret, &rv);
                out.push(("r2", reveal_json(&r2)));
                out.push(("eq2", json!(r2.as_ref().ok() == Some(&a))));
            }
        }
        out
    });
    match s2 {
        Ok(fields) => {
            for (k, v) in fields {
                ev.insert(k.into(), v);
            }
        }
        Err(p) => {
            ev.insert("wire_panic".into(), p);
        }
    }
    Ok(())
}

fn one_avp_record(t: u16, payload: &[u8]) -> Vec<u8> {
    let len = 6 + payload.len();
    let mut v = vec![(((len >> 8) & 3) as u8) << 6, len as u8, 0, 0, (t >> 8) as u8, t as u8];
    v.extend_from_slice(payload);
    v
}

/// complete code -> name map of an enumerated field over lo..=hi (C16)
fn op_enum_map(c: &Value, ev: &mut Map<String, Value>) -> Result<(), String> {
    let field = c["field"].as_str().ok_or("field")?;
    let lo = c["lo"].as_u64().unwrap_or(0) as u32;
    let hi = c["hi"].as_u64().unwrap_or(65535) as u32;
    let ctx: Option<u16> = c["ctx"].as_u64().map(|x| x as u16);
    let surplus: Vec<u8> = if c["surplus"].is_null() { Vec::new() } else { json_bytes(&c["surplus"])? };
    let f6: u8 = c["f6"].as_u64().map(|x| x as u8).unwrap_or(1);
    let after: Vec<u8> = if c["after"].is_null() { Vec::new() } else { json_bytes(&c["after"])? };
    let n_after = c["n_after"].as_u64().unwrap_or(0) as usize;
    let ver: Option<u8> = c["ver"].as_u64().map(|x| x as u8);
    let o = guarded(|| {
        let mut acc = Vec::new();
        let mut tested = 0u64;
        for x in lo..=hi {
            let x = x as u16;
            tested += 1;
            // (accepted name, code it re-encodes to)
            let got: Option<(String, Option<u16>)> = match field {
                "StopCcn" => {
                    let cv = result_code::CodeValue::from(x);
                    let raw: u16 = cv.into();
                    if raw != x {
                        Some((format!("raw-mismatch-{raw}"), None))
                    } else {
                        cv.as_stop_ccn().ok().map(|n| {
                            let back: u16 = result_code::CodeValue::from(n).into();
                            (format!("{n:?}"), Some(back))
                        })
                    }
                }
                "Cdn" => {
                    let cv = result_code::CodeValue::from(x);
                    cv.as_cdn().ok().map(|n| {
                        let back: u16 = result_code::CodeValue::from(n).into();
                        (format!("{n:?}"), Some(back))
                    })
                }
                "MessageType" | "ProxyAuthenType" | "ErrorType" | "AttributeType" => {
                    // `surplus`: extra payload octets behind the code (ignored by the layout for the fixed-size
                    // kinds, the optional text for a Result Code); `f6`: the low six bits of the record's first
                    // octet (M clear, reserved bits set -- all ignored on input)
                    let mut rec = match field {
                        "MessageType" => { let mut p = x.to_be_bytes().to_vec(); p.extend_from_slice(&surplus); one_avp_record(0, &p) }
                        "ProxyAuthenType" => { let mut p = x.to_be_bytes().to_vec(); p.extend_from_slice(&surplus); one_avp_record(29, &p) }
                        "ErrorType" => { let mut p = vec![0, 1, (x >> 8) as u8, x as u8]; p.extend_from_slice(&surplus); one_avp_record(1, &p) }
                        _ => {
                            let mut p = vec![0u8, 1, 0, 1];
                            p.extend_from_slice(&[65u8; 28]);
                            one_avp_record(x, &p)
                        }
                    };
                    rec[0] = (rec[0] & 0xc0) | f6;
                    // ctx absent: the record alone through AVP::try_read_greedy; ctx = a message-type code: the
                    // record inside a whole control message behind that Message Type (ctx 0: the record is the
                    // message's first and only AVP), through Message::try_read_validate -- an enumerated code must
                    // not be treated differently there
                    let items: Vec<Result<AVP, DecodeError>> = match ctx {
                        None => {
                            let mut r = SliceReader::from(&rec[..]);
                            AVP::try_read_greedy(&mut r)
                        }
                        Some(mt) => {
                            let mut body = if mt == 0 { Vec::new() } else { one_avp_record(0, &mt.to_be_bytes()) };
                            body.extend_from_slice(&rec);
                            body.extend_from_slice(&after);          // neighbours: valid AVPs that typically accompany it
                            let n = 12 + body.len();
                            let mut w = vec![0x13u8, 0x20, (n >> 8) as u8, n as u8, 0, 1, 0, 2, 0, 3, 0, 4];
                            w.extend_from_slice(&body);
                            // (optionally another version nibble with every check off: what a disabled version check
                            //  lets through must not change which codes are assigned)
                            if let Some(v) = ver {
                                w[1] = (w[1] & 0x0f) | (v << 4);
                            }
                            let opts = if ver.is_some() { json!([false, false, false]) } else { json!([true, true, true]) };
                            let mut r = SliceReader::from(&w[..]);
                            match Message::try_read_validate(&mut r, opts_from(&opts)) {
                                Ok(Message::Control(m)) => {
                                    let skip = if mt == 0 { 0 } else { 1 };
                                    let expect = 1 + n_after;
                                    let all: Vec<AVP> = m.avps.into_iter().skip(skip).collect();
                                    // (with neighbours: all of them must still be there; the swept AVP is the first)
                                    let rest: Vec<Result<AVP, DecodeError>> =
                                        if all.len() == expect { all.into_iter().take(1).map(Ok).collect() } else { Vec::new() };
                                    if rest.is_empty() {
                                        // accepted, but the AVP carrying the code is gone
                                        vec![Err(DecodeError::EmptyHiddenAVP), Err(DecodeError::EmptyHiddenAVP)]
                                    } else {
                                        rest
                                    }
                                }
                                Ok(_) => vec![],
                                Err(mut es) => {
                                    if es.len() == 1 {
                                        vec![Err(es.remove(0))]
                                    } else {
                                        vec![]
                                    }
                                }
                            }
                        }
                    };
                    if ctx.is_some() && items.len() == 2 && items[0].is_err() {
                        acc.push(json!([x, "accepted-but-dropped", []]));
                        continue;
                    }
                    match items.first() {
                        Some(Ok(a)) if items.len() == 1 => {
                            let j = avp_to_json(a);
                            let name = match field {
                                "MessageType" | "ProxyAuthenType" => j["f"][0].as_str().unwrap_or("?").to_string(),
                                "ErrorType" => j["f"][1][0].as_str().unwrap_or("?").to_string(),
                                _ => j["k"].as_str().unwrap_or("?").to_string(),
                            };
                            // re-encode and read the code back from the wire
                            let mut w = VecWriter::new();
                            a.write(&mut w);
                            let back = match field {
                                "MessageType" | "ProxyAuthenType" => w.data.get(6..8).map(|b| u16::from_be_bytes([b[0], b[1]])),
                                "ErrorType" => w.data.get(8..10).map(|b| u16::from_be_bytes([b[0], b[1]])),
                                _ => w.data.get(4..6).map(|b| u16::from_be_bytes([b[0], b[1]])),
                            };
                            Some((name, back))
                        }
                        Some(Err(DecodeError::UnknownAvp(_))) if field == "AttributeType" => None,
                        // the type's own reader answered with an error about THIS type: the number is dispatched
                        // (whether that reader is right to complain is C05's question, not C16's)
                        Some(Err(DecodeError::IncompleteAVP(t))) | Some(Err(DecodeError::InvalidUtf8(t))) | Some(Err(DecodeError::AVPReadError(t)))
                            if field == "AttributeType" && *t == x =>
                        {
                            Some(("error-own".to_string(), None))
                        }
                        Some(Err(e)) if field == "AttributeType" => Some((format!("error-{e:?}"), None)),
                        _ => None,
                    }
                }
                _ => Some(("unknown-field".to_string(), None)),
            };
            if let Some((name, back)) = got {
                acc.push(json!([x, name, opt_json(back.map(|b| json!(b)))]));
            }
        }
        (acc, tested)
    });
    match o {
        Ok((acc, tested)) => {
            ev.insert("accepted".into(), Value::Array(acc));
            ev.insert("tested".into(), json!(tested));
            ev.insert("out".into(), json!({"t": "ok"}));
        }
        Err(p) => {
            ev.insert("out".into(), p);
        }
    }
    Ok(())
}

/// every named value of an enumerated field -> the number it encodes to (C16)
fn op_enum_names(c: &Value, ev: &mut Map<String, Value>) -> Result<(), String> {
    let field = c["field"].as_str().ok_or("field")?;
    let enc16 = |a: AVP, at: usize| -> Option<u16> {
        let mut w = VecWriter::new();
        a.write(&mut w);
        w.data.get(at..at + 2).map(|b| u16::from_be_bytes([b[0], b[1]]))
    };
    let o = guarded(|| {
        let mut pairs = Vec::new();
        match field {
            "MessageType" => {
                for n in MESSAGE_TYPE_NAMES {
                    let v = message_type_from_name(n).unwrap();
                    pairs.push(json!([n, opt_json(enc16(AVP::MessageType(v), 6).map(|x| json!(x)))]));
                }
            }
            "ProxyAuthenType" => {
                for n in PROXY_AUTHEN_TYPE_NAMES {
                    let v = proxy_authen_type_from_name(n).unwrap();
                    let direct: u16 = v.into();
                    pairs.push(json!([n, opt_json(enc16(AVP::ProxyAuthenType(v), 6).map(|x| json!(x)))]));
                    pairs.push(json!([n, [direct]]));
                }
            }
            "ErrorType" => {
                for n in ERROR_TYPE_NAMES {
                    let v = error_type_from_name(n).unwrap();
                    let direct: u16 = v.into();
                    let a = AVP::ResultCode(types::ResultCode {
                        code: 1u16.into(),
                        error: Some(result_code::Error { error_type: v, error_message: None }),
                    });
                    pairs.push(json!([n, opt_json(enc16(a, 8).map(|x| json!(x)))]));
                    pairs.push(json!([n, [direct]]));
                }
            }
            "StopCcn" => {
                for n in STOP_CCN_NAMES {
                    let v = stop_ccn_from_name(n).unwrap();
                    let direct: u16 = v.into();
                    let a = AVP::ResultCode(types::ResultCode { code: v.into(), error: None });
                    pairs.push(json!([n, opt_json(enc16(a, 6).map(|x| json!(x)))]));
                    pairs.push(json!([n, [direct]]));
                }
            }
            "Cdn" => {
                for n in CDN_NAMES {
                    let v = cdn_from_name(n).unwrap();
                    let direct: u16 = v.into();
                    let a = AVP::ResultCode(types::ResultCode { code: v.into(), error: None });
                    pairs.push(json!([n, opt_json(enc16(a, 6).map(|x| json!(x)))]));
                    pairs.push(json!([n, [direct]]));
                }
            }
            _ => {}
        }
        pairs
    });
    match o {
        Ok(p) => {
            ev.insert("pairs".into(), Value::Array(p));
            ev.insert("out".into(), json!({"t": "ok"}));
        }
        Err(p) => {
            ev.insert("out".into(), p);
        }
    }
    Ok(())
}

/// bitmask AVPs (C17): for one kind, the four constructor combinations and a list of wire words.
/// `first` / `second` are the accessors named after the constructor's first / second parameter.
fn op_bitmask(c: &Value, ev: &mut Map<String, Value>) -> Result<(), String> {
    let kind = c["kind"].as_str().ok_or("kind")?;
    let words: Vec<[u8; 4]> = c["words"]
        .as_array()
        .cloned()
        .unwrap_or_default()
        .iter()
        .map(json_fixed::<4>)
        .collect::<Result<_, _>>()?;
    let surplus: Vec<u8> = if c["surplus"].is_null() { Vec::new() } else { json_bytes(&c["surplus"])? };
    let f6: Option<u8> = c["f6"].as_u64().map(|x| x as u8);
    let o = guarded(|| -> Result<(Vec<Value>, Vec<Value>), String> {
        macro_rules! go {
            ($ty:ident, $t:expr, $first:ident, $second:ident) => {{
                let describe = |x: types::$ty| -> Value {
                    let dbg = format!("{x:?}");
                    let mut w = VecWriter::new();
                    AVP::$ty(x).write(&mut w);
                    json!({"first": x.$first(), "second": x.$second(),
                           "bits": opt_json(bitmask_bits(&dbg).map(|w| bytes_json(&w.to_be_bytes()))),
                           "enc": bytes_json(&w.data)})
                };
                let mut ctor = Vec::new();
                for (a, b) in [(false, false), (true, false), (false, true), (true, true)] {
                    let mut d = describe(types::$ty::new(a, b));
                    d["a"] = json!(a);
                    d["b"] = json!(b);
                    ctor.push(d);
                }
                let mut wire = Vec::new();
                for w in &words {
                    // (surplus payload octets behind the 32 bits are ignored by the crate's layout: the word is
                    // the FIRST four octets whatever follows)
                    let mut full = w.to_vec();
                    full.extend_from_slice(&surplus);
                    let x = match f6 {
                        // through the per-type reader ...
                        None => {
                            let mut r = SliceReader::from(&full[..]);
                            types::$ty::try_read(&mut r).map_err(|e| format!("{e:?}"))?
                        }
                        // ... or as a whole record with the given low six bits of its first octet (M clear, reserved
                        // bits set: ignored by the layout) through AVP::try_read_greedy
                        Some(f6) => {
                            let mut rec = one_avp_record($t, &full);
                            rec[0] = (rec[0] & 0xc0) | f6;
                            let mut r = SliceReader::from(&rec[..]);
                            let mut items = AVP::try_read_greedy(&mut r);
                            if items.len() != 1 {
                                return Err(format!("{} items", items.len()));
                            }
                            match items.remove(0) {
                                Ok(AVP::$ty(x)) => x,
                                other => return Err(format!("{other:?}")),
                            }
                        }
                    };
                    let mut d = describe(x);
                    d["w"] = bytes_json(w);
                    wire.push(d);
                }
                Ok((ctor, wire))
            }};
        }
        match kind {
            "FramingCapabilities" => go!(FramingCapabilities, 3, is_async_framing_supported, is_sync_framing_supported),
            "BearerCapabilities" => go!(BearerCapabilities, 4, is_digital_access_supported, is_analog_access_supported),
            "BearerType" => go!(BearerType, 18, is_analog_request, is_digital_request),
            "FramingType" => go!(FramingType, 19, is_analog_request, is_digital_request),
            other => Err(format!("not a bitmask kind: {other}")),
        }
    });
    match o {
        Ok(Ok((ctor, wire))) => {
            ev.insert("out".into(), json!({"t": "ok"}));
            ev.insert("ctor".into(), Value::Array(ctor));
            ev.insert("wire".into(), Value::Array(wire));
        }
        Ok(Err(e)) => {
            ev.insert("out".into(), json!({"t": "err", "v": e}));
        }
        Err(p) => {
            ev.insert("out".into(), p);
        }
    }
    Ok(())
}

/// the native round-trip relation (C03 / C04) for one value: encode, strict decode, compare with Rust's own `==`
fn native_roundtrip_ok(val: &Val) -> bool {
    let mut w = VecWriter::new();
    write_val(val, &mut w);
    let octets = w.data;
    match val {
        Val::Msg(m) => {
            let mut r = SliceReader::from(&octets[..]);
            let res = Message::<&[u8]>::try_read_validate(&mut r, strict());
            let eq = match (&res, m) {
                (Ok(Message::Control(got)), Message::Control(orig)) => {
                    let mut exp = orig.clone();
                    exp.length = octets.len() as u16;
                    *got == exp
                }
                (Ok(Message::Data(got)), Message::Data(orig)) => {
                    let n = orig.offset.unwrap_or(0) as usize;
                    got.is_prioritized == orig.is_prioritized
                        && got.length == orig.length
                        && got.tunnel_id == orig.tunnel_id
                        && got.session_id == orig.session_id
                        && got.ns_nr == orig.ns_nr
                        && got.offset.is_none()
                        && n <= orig.data.len()
                        && got.data == &orig.data[n..]
                }
                _ => false,
            };
            eq && r.len() == 0
        }
        Val::Avp(a) => {
            let mut r = SliceReader::from(&octets[..]);
            let items = AVP::try_read_greedy(&mut r);
            items.len() == 1 && items[0].as_ref().ok() == Some(a) && r.len() == 0
        }
    }
}

/// C03 / C04 with ONE numeric field of a value taken through its whole range (all 65 536 / 256 values): the
/// relation decode_strict(encode(v)) = v is judged here with Rust's own equality; the values that fail are reported
fn op_rt_sweep(c: &Value, ev: &mut Map<String, Value>) -> Result<(), String> {
    let kind = c["kind"].as_str().unwrap_or("msg").to_string();
    let path = c["path"].as_str().ok_or("path")?.to_string();
    let lo = c["lo"].as_u64().unwrap_or(0);
    let hi = c["hi"].as_u64().unwrap_or(65535);
    let mut v = c["v"].clone();
    if v.pointer(&path).is_none() {
        return Err(format!("no such field {path}"));
    }
    let mut bad: Vec<u64> = Vec::new();
    let mut tested = 0u64;
    for x in lo..=hi {
        *v.pointer_mut(&path).unwrap() = json!(x);
        let val = val_from(&kind, &v)?;
        tested += 1;
        let ok = matches!(guarded(|| native_roundtrip_ok(&val)), Ok(true));
        if !ok && bad.len() < 16 {
            bad.push(x);
        }
    }
    ev.insert("out".into(), json!({"t": "ok"}));
    ev.insert("bad".into(), json!(bad));
    ev.insert("tested".into(), json!(tested));
    ev.insert("want".into(), json!(hi - lo + 1));
    Ok(())
}

/// C17 over ALL 2^32 wire words of one bitmask kind (in `chunks` parallel threads): the two accessors must equal
/// the bits the constructor sets, and decode-then-encode must give the word back.  Reports the constructor words
/// (so that the specification can check them against the pinned layout) and the first words that fail.
fn op_bitmask_sweep(c: &Value, ev: &mut Map<String, Value>) -> Result<(), String> {
    let kind = c["kind"].as_str().ok_or("kind")?.to_string();
    let lo = c["lo"].as_u64().unwrap_or(0);
    let mut hi = c["hi"].as_u64().unwrap_or(0xffff_ffff);
    // (the build with debug assertions is several times slower: it takes the first 2^dev_span_log2 words of the range)
    if cfg!(debug_assertions) {
        if let Some(k) = c["dev_span_log2"].as_u64() {
            hi = hi.min(lo + (1u64 << k) - 1);
        }
    }
    let threads = c["threads"].as_u64().unwrap_or(16).max(1);
    let o = guarded(|| -> Result<(Vec<Value>, Vec<u32>, u64), String> {
        macro_rules! go {
            ($ty:ident, $first:ident, $second:ident) => {{
                let word_of = |x: types::$ty| -> u32 {
                    let mut w = VecWriter::new();
                    AVP::$ty(x).write(&mut w);
                    let n = w.data.len();
                    u32::from_be_bytes([w.data[n - 4], w.data[n - 3], w.data[n - 2], w.data[n - 1]])
                };
                let wa = word_of(types::$ty::new(true, false));
                let wb = word_of(types::$ty::new(false, true));
                let ctor: Vec<Value> = [(false, false), (true, false), (false, true), (true, true)]
                    .iter()
                    .map(|(a, b)| json!({"a": a, "b": b, "bits": [bytes_json(&word_of(types::$ty::new(*a, *b)).to_be_bytes())]}))
                    .collect();
                let span = hi - lo + 1;
                let per = (span + threads - 1) / threads;
                let results: Vec<(Vec<u32>, u64)> = std::thread::scope(|sc| {
                    let mut hs = Vec::new();
                    for t in 0..threads {
                        let from = lo + t * per;
                        let to = (from + per).min(hi + 1);
                        hs.push(sc.spawn(move || {
                            let mut bad: Vec<u32> = Vec::new();
                            let mut n = 0u64;
                            let mut w = from;
                            let mut wr = VecWriter::new();        // one buffer per thread, not one per word
                            while w < to {
                                let word = w as u32;
                                let bytes = word.to_be_bytes();
                                let mut r = SliceReader::from(&bytes[..]);
                                n += 1;
                                match types::$ty::try_read(&mut r) {
                                    Ok(x) => {
                                        wr.data.clear();
                                        AVP::$ty(x).write(&mut wr);
                                        let k = wr.data.len();
                                        let back = k >= 4 && wr.data[k - 4..] == bytes;
                                        let ok = x.$first() == (word & wa != 0) && x.$second() == (word & wb != 0) && back;
                                        if !ok && bad.len() < 8 {
                                            bad.push(word);
                                        }
                                    }
                                    Err(_) => {
                                        if bad.len() < 8 {
                                            bad.push(word);
                                        }
                                    }
                                }
                                w += 1;
                            }
                            (bad, n)
                        }));
                    }
                    hs.into_iter().map(|h| h.join().unwrap_or((vec![0xdead_beef], 0))).collect()
                });
                let mut bad = Vec::new();
                let mut n = 0u64;
                for (b, k) in results {
                    bad.extend(b);
                    n += k;
                }
                bad.truncate(16);
                Ok((ctor, bad, n))
            }};
        }
        match kind.as_str() {
            "FramingCapabilities" => go!(FramingCapabilities, is_async_framing_supported, is_sync_framing_supported),
            "BearerCapabilities" => go!(BearerCapabilities, is_digital_access_supported, is_analog_access_supported),
            "BearerType" => go!(BearerType, is_analog_request, is_digital_request),
            "FramingType" => go!(FramingType, is_analog_request, is_digital_request),
            other => Err(format!("not a bitmask kind: {other}")),
        }
    });
    match o {
        Ok(Ok((ctor, bad, n))) => {
            ev.insert("out".into(), json!({"t": "ok"}));
            ev.insert("ctor".into(), Value::Array(ctor));
            ev.insert("bad".into(), json!(bad.iter().map(|w| bytes_json(&w.to_be_bytes())).collect::<Vec<_>>()));
            // (the count is reported in two halves: the specification's integers are 32-bit)
            ev.insert("tested_hi".into(), json!(n >> 16));
            ev.insert("tested_lo".into(), json!(n & 0xffff));
            let want = hi - lo + 1;
            ev.insert("want_hi".into(), json!(want >> 16));
            ev.insert("want_lo".into(), json!(want & 0xffff));
        }
        Ok(Err(e)) => {
            ev.insert("out".into(), json!({"t": "err", "v": e}));
        }
        Err(p) => {
            ev.insert("out".into(), p);
        }
    }
    Ok(())
}

/// Display of a decode error (C20): the text, and its alphanumeric words
fn op_render(c: &Value, ev: &mut Map<String, Value>) -> Result<(), String> {
    let e = err_from_json(&c["v"])?;
    // plain Display, or Display under a width / alignment / alternate flag (the text must not depend on them
    // for what it names)
    let style = c["style"].as_str().unwrap_or("plain").to_string();
    let o = guarded(|| match style.as_str() {
        "wide" => format!("{:>60}", e),
        "left" => format!("{:<60}", e),
        "alt" => format!("{:#}", e),
        _ => e.to_string(),
    });
    match o {
        Ok(text) => {
            let words: Vec<Value> = text
                .split(|ch: char| !ch.is_ascii_alphanumeric())
                .filter(|w| !w.is_empty())
                .map(|w| json!(w))
                .collect();
            ev.insert("out".into(), json!({"t": "ok", "text": text, "len": text.len(), "words": words}));
        }
        Err(p) => {
            ev.insert("out".into(), p);
        }
    }
    Ok(())
}

/// operation sequences on the real SliceReader (C18).  Reader 0 is the root; "sub" creates the
/// next id.  Unchecked operations are only issued when the shadow length says they are enabled
/// (anything else would be undefined behaviour in the harness itself) -- otherwise "refused".
fn op_cursor(c: &Value, ev: &mut Map<String, Value>) -> Result<(), String> {
    let slice = json_bytes(&c["slice"])?;
    let ops = c["ops"].as_array().ok_or("ops")?;
    let mut readers: Vec<SliceReader> = vec![SliceReader::from(&slice[..])];
    let mut shadow: Vec<usize> = vec![slice.len()];
    let mut steps = Vec::new();
    for op in ops {
        let rid = op[0].as_u64().unwrap_or(0) as usize;
        let name = op[1].as_str().unwrap_or("");
        let n = op[2].as_u64().unwrap_or(0) as usize;
        if rid >= readers.len() {
            steps.push(json!({"r": rid, "op": name, "n": n, "t": "refused"}));
            continue;
        }
        let enabled = match name {
            "read" | "skip" | "sub" => n <= shadow[rid],
            _ => true,
        };
        if !enabled || (name == "read" && ![1, 2, 4, 8].contains(&n)) {
            steps.push(json!({"r": rid, "op": name, "n": n, "t": "refused"}));
            continue;
        }
        let mut new_reader: Option<SliceReader> = None;
        let o = guarded(|| {
            let r = &mut readers[rid];
            match name {
                "read" => {
                    let v: Vec<u8> = unsafe {
                        match n {
                            1 => vec![r.read_u8_unchecked()],
                            2 => r.read_u16_be_unchecked().to_be_bytes().to_vec(),
                            4 => r.read_u32_be_unchecked().to_be_bytes().to_vec(),
                            _ => r.read_u64_be_unchecked().to_be_bytes().to_vec(),
                        }
                    };
                    json!({"ret": bytes_json(&v)})
                }
                "skip" => {
                    r.skip_bytes(n);
                    json!({})
                }
                "sub" => {
                    let s = r.subreader(n);
                    let j = json!({"newlen": s.len(), "newempty": s.is_empty()});
                    new_reader = Some(s);
                    j
                }
                "bytes" => match r.bytes(n) {
                    Some(b) => json!({"ret": [bytes_json(b)]}),
                    None => json!({"ret": []}),
                },
                _ => json!({}),
            }
        });
        match o {
            Ok(mut j) => {
                let r = &readers[rid];
                let m = j.as_object_mut().unwrap();
                m.insert("r".into(), json!(rid));
                m.insert("op".into(), json!(name));
                m.insert("n".into(), json!(n));
                m.insert("t".into(), json!("ok"));
                m.insert("len".into(), json!(r.len()));
                m.insert("empty".into(), json!(r.is_empty()));
                steps.push(j);
                // shadow bookkeeping (only to keep the harness itself safe)
                match name {
                    "read" | "skip" | "sub" => shadow[rid] -= n,
                    "bytes" if n <= shadow[rid] => shadow[rid] -= n,
                    _ => {}
                }
                shadow[rid] = shadow[rid].min(readers[rid].len());
                if let Some(s) = new_reader {
                    shadow.push(s.len().min(n));
                    readers.push(s);
                }
            }
            Err(p) => {
                steps.push(json!({"r": rid, "op": name, "n": n, "t": "panic", "v": p["v"]}));
                break;
            }
        }
    }
    ev.insert("steps".into(), Value::Array(steps));
    Ok(())
}

/// operation sequences on the real VecWriter (C18)
fn op_vecwriter(c: &Value, ev: &mut Map<String, Value>) -> Result<(), String> {
    let ops = c["ops"].as_array().ok_or("ops")?;
    let mut w = VecWriter::new();
    let mut steps = Vec::new();
    for op in ops {
        let name = op[0].as_str().unwrap_or("");
        let b = json_bytes(&op[1])?;
        let off = op[2].as_u64().unwrap_or(0) as usize;
        let o = guarded(|| match name {
            "bytes" => w.write_bytes(&b),
            "u8" => w.write_u8(b[0]),
            "u16" => w.write_u16_be(u16::from_be_bytes([b[0], b[1]])),
            "u32" => w.write_u32_be(u32::from_be_bytes([b[0], b[1], b[2], b[3]])),
            "u64" => w.write_u64_be(u64::from_be_bytes([b[0], b[1], b[2], b[3], b[4], b[5], b[6], b[7]])),
            "at" => w.write_bytes_at(&b, off),
            _ => {}
        });
        let t = if o.is_ok() { "ok" } else { "panic" };
        steps.push(json!({"op": name, "b": bytes_json(&b), "off": off, "t": t,
                          "len": w.len(), "empty": w.is_empty(), "data": bytes_json(&w.data)}));
    }
    ev.insert("steps".into(), Value::Array(steps));
    Ok(())
}

pub fn run_op(c: &Value, ev: &mut Map<String, Value>) -> Result<(), String> {
    match c["op"].as_str().unwrap_or("") {
        "decode" => op_decode(c, ev),
        "decode_avps" => op_decode_avps(c, ev),
        "decode_payload" => op_decode_payload(c, ev),
        "decode_seq" => op_decode_seq(c, ev),
        "decode_opts" => op_decode_opts(c, ev),
        "decode_bits" => op_decode_bits(c, ev),
        "fault_sweep" => op_fault_sweep(c, ev),
        "decode_suffix" => op_decode_suffix(c, ev),
        "avps_concat" => op_avps_concat(c, ev),
        "ctl_records" => op_ctl_records(c, ev),
        "encode" => op_encode(c, ev),
        "encode_seq" => op_encode_seq(c, ev),
        "roundtrip" => op_roundtrip(c, ev),
        "chain" => op_chain(c, ev),
        "hide" => op_hide(c, ev),
        "reveal" => op_reveal(c, ev),
        "hide_reveal" => op_hide_reveal(c, ev),
        "enum_map" => op_enum_map(c, ev),
        "enum_names" => op_enum_names(c, ev),
        "bitmask" => op_bitmask(c, ev),
        "bitmask_sweep" => op_bitmask_sweep(c, ev),
        "rt_sweep" => op_rt_sweep(c, ev),
        "render" => op_render(c, ev),
        "cursor" => op_cursor(c, ev),
        "vecwriter" => op_vecwriter(c, ev),
        other => Err(format!("unknown op {other}")),
    }
}
