//! Monitoring implementations of the crate's public Reader / Writer traits.
//!
//! MonReader logs every state-changing request the codec makes, with the octets that remained when it
//! was made.  It never performs an out-of-range access itself: a request whose precondition does
//! not hold is logged (that is the finding) and answered with zeros / an empty sub-reader.
use crate::util::bytes_json;
#[cfg(feature = "custom_readers")]
use rl2tp::common::Reader;
#[cfg(feature = "custom_writers")]
use rl2tp::common::Writer;
use serde_json::{json, Value};
#[cfg(feature = "custom_readers")]
use std::cell::RefCell;
#[cfg(feature = "custom_readers")]
use std::collections::VecDeque;
#[cfg(feature = "custom_readers")]
use std::rc::Rc;

/// TLC integers are 32-bit: a (wrapped) request size is logged capped at 2*10^9 -- it still
/// exceeds any input and is rejected by the contract machine.
#[allow(dead_code)]
fn cap(n: usize) -> u64 {
    (n as u64).min(2_000_000_000)
}

// The implementations of the crate's Reader trait live behind the feature `custom_readers`, those of its Writer
// trait behind `custom_writers` (both on by default): when a change to the crate's traits makes them stop
// compiling, the orchestrator falls back to a build without them and says so.
#[cfg(feature = "custom_readers")]
mod rd {
    use super::*;
    #[derive(Default)]
    pub struct MonLog {
        pub calls: Vec<Value>,
        next_id: usize,
    }


    pub struct MonReader {
        data: Rc<Vec<u8>>,
        pos: usize,
        end: usize,
        id: usize,
        log: Rc<RefCell<MonLog>>,
    }

    impl MonReader {
        pub fn new(data: Vec<u8>) -> (Self, Rc<RefCell<MonLog>>) {
            let log = Rc::new(RefCell::new(MonLog { calls: Vec::new(), next_id: 1 }));
            let end = data.len();
            (MonReader { data: Rc::new(data), pos: 0, end, id: 0, log: log.clone() }, log)
        }
        fn rem(&self) -> usize {
            self.end - self.pos
        }
        /// take up to n octets (zero-filled when fewer remain), advance by min(n, rem)
        fn take(&mut self, n: usize) -> Vec<u8> {
            let k = n.min(self.rem());
            let mut v = self.data[self.pos..self.pos + k].to_vec();
            v.resize(n.min(64), 0);
            self.pos += k;
            v
        }
        fn fixed(&mut self, op: &str, n: usize) -> Vec<u8> {
            let rem = self.rem();
            let v = self.take(n);
            self.log.borrow_mut().calls.push(json!([self.id, op, cap(n), rem, bytes_json(&v)]));
            v
        }
    }

    impl Reader<Vec<u8>> for MonReader {
        fn is_empty(&self) -> bool {
            self.rem() == 0
        }
        fn len(&self) -> usize {
            self.rem()
        }
        fn subreader(&mut self, length: usize) -> Self {
            let rem = self.rem();
            let k = length.min(rem);
            let new_id = {
                let mut l = self.log.borrow_mut();
                let id = l.next_id;
                l.next_id += 1;
                l.calls.push(json!([self.id, "sub", cap(length), rem, id]));
                id
            };
            let r = MonReader { data: self.data.clone(), pos: self.pos, end: self.pos + k, id: new_id, log: self.log.clone() };
            self.pos += k;
            r
        }
        fn bytes(&mut self, length: usize) -> Option<Vec<u8>> {
            let rem = self.rem();
            if length > rem {
                self.log.borrow_mut().calls.push(json!([self.id, "bytes", cap(length), rem, 0]));
                return None;
            }
            let v = self.data[self.pos..self.pos + length].to_vec();
            self.pos += length;
            self.log.borrow_mut().calls.push(json!([self.id, "bytes", cap(length), rem, 1]));
            Some(v)
        }
        unsafe fn read_u8_unchecked(&mut self) -> u8 {
            self.fixed("read", 1)[0]
        }
        unsafe fn read_u16_be_unchecked(&mut self) -> u16 {
            let v = self.fixed("read", 2);
            u16::from_be_bytes([v[0], v[1]])
        }
        unsafe fn read_u32_be_unchecked(&mut self) -> u32 {
            let v = self.fixed("read", 4);
            u32::from_be_bytes([v[0], v[1], v[2], v[3]])
        }
        unsafe fn read_u64_be_unchecked(&mut self) -> u64 {
            let v = self.fixed("read", 8);
            u64::from_be_bytes([v[0], v[1], v[2], v[3], v[4], v[5], v[6], v[7]])
        }
        fn skip_bytes(&mut self, length: usize) {
            let rem = self.rem();
            let k = length.min(rem);
            self.pos += k;
            self.log.borrow_mut().calls.push(json!([self.id, "skip", cap(length), rem, 0]));
        }
    }

    /// A structurally different conforming reader: owns a queue of octets and pops from the front.
    /// (No logging; used for the "same result for every conforming reader" comparison.)
    pub struct DequeReader {
        q: VecDeque<u8>,
    }

    impl DequeReader {
        pub fn new(data: &[u8]) -> Self {
            DequeReader { q: data.iter().copied().collect() }
        }
        fn pop(&mut self) -> u8 {
            self.q.pop_front().unwrap_or(0)
        }
    }

    impl Reader<Vec<u8>> for DequeReader {
        fn is_empty(&self) -> bool {
            self.q.is_empty()
        }
        fn len(&self) -> usize {
            self.q.len()
        }
        fn subreader(&mut self, length: usize) -> Self {
            let k = length.min(self.q.len());
            DequeReader { q: self.q.drain(..k).collect() }
        }
        fn bytes(&mut self, length: usize) -> Option<Vec<u8>> {
            if length > self.q.len() {
                return None;
            }
            Some(self.q.drain(..length).collect())
        }
        unsafe fn read_u8_unchecked(&mut self) -> u8 {
            self.pop()
        }
        unsafe fn read_u16_be_unchecked(&mut self) -> u16 {
            u16::from_be_bytes([self.pop(), self.pop()])
        }
        unsafe fn read_u32_be_unchecked(&mut self) -> u32 {
            u32::from_be_bytes([self.pop(), self.pop(), self.pop(), self.pop()])
        }
        unsafe fn read_u64_be_unchecked(&mut self) -> u64 {
            let mut b = [0u8; 8];
            for x in b.iter_mut() {
                *x = self.pop();
            }
            u64::from_be_bytes(b)
        }
        fn skip_bytes(&mut self, length: usize) {
            let k = length.min(self.q.len());
            self.q.drain(..k);
        }
    }

}
#[cfg(feature = "custom_readers")]
pub use rd::*;

#[cfg(feature = "custom_writers")]
mod wr {
    use super::*;
    /// Writer that logs every append and every positional overwrite (with its absolute offset).
    /// An overwrite outside the written data is logged and ignored.
    #[derive(Default)]
    pub struct MonWriter {
        pub data: Vec<u8>,
        pub calls: Vec<Value>,
    }

    impl MonWriter {
        pub fn with_prefix(p: &[u8]) -> Self {
            MonWriter { data: p.to_vec(), calls: Vec::new() }
        }
        fn app(&mut self, b: &[u8]) {
            self.calls.push(json!(["app", self.data.len(), b.len()]));
            self.data.extend_from_slice(b);
        }
    }

    impl Writer for MonWriter {
        fn is_empty(&self) -> bool {
            self.data.is_empty()
        }
        fn len(&self) -> usize {
            self.data.len()
        }
        fn write_bytes(&mut self, bytes: &[u8]) {
            self.app(bytes)
        }
        fn write_bytes_at(&mut self, bytes: &[u8], offset: usize) {
            self.calls.push(json!(["at", cap(offset), bytes.len(), self.data.len()]));
            if offset.checked_add(bytes.len()).map_or(false, |e| e <= self.data.len()) {
                self.data[offset..offset + bytes.len()].copy_from_slice(bytes);
            }
        }
        fn write_u8(&mut self, value: u8) {
            self.app(&[value])
        }
        fn write_u16_be(&mut self, value: u16) {
            self.app(&value.to_be_bytes())
        }
        fn write_u32_be(&mut self, value: u32) {
            self.app(&value.to_be_bytes())
        }
        fn write_u64_be(&mut self, value: u64) {
            self.app(&value.to_be_bytes())
        }
    }

    /// A conforming Writer that behaves as if it already held `vbase` octets (which are not stored): positions at
    /// and beyond 2^31 / 2^32 without the memory.  Appends and positional overwrites are logged RELATIVE to
    /// `vbase` (an overwrite that starts below it is logged at -1 and not performed).
    pub struct SparseWriter {
        pub vbase: usize,
        pub data: Vec<u8>,
        pub calls: Vec<Value>,
    }

    impl SparseWriter {
        pub fn new(vbase: usize) -> Self {
            SparseWriter { vbase, data: Vec::new(), calls: Vec::new() }
        }
        fn app(&mut self, b: &[u8]) {
            self.calls.push(json!(["app", self.data.len(), b.len()]));
            self.data.extend_from_slice(b);
        }
    }

    impl Writer for SparseWriter {
        fn is_empty(&self) -> bool {
            self.vbase == 0 && self.data.is_empty()
        }
        fn len(&self) -> usize {
            self.vbase + self.data.len()
        }
        fn write_bytes(&mut self, bytes: &[u8]) {
            self.app(bytes)
        }
        fn write_bytes_at(&mut self, bytes: &[u8], offset: usize) {
            if offset < self.vbase {
                self.calls.push(json!(["at", -1, bytes.len(), self.data.len()]));
                return;
            }
            let rel = offset - self.vbase;
            self.calls.push(json!(["at", cap(rel), bytes.len(), self.data.len()]));
            if rel.checked_add(bytes.len()).map_or(false, |e| e <= self.data.len()) {
                self.data[rel..rel + bytes.len()].copy_from_slice(bytes);
            }
        }
        fn write_u8(&mut self, value: u8) {
            self.app(&[value])
        }
        fn write_u16_be(&mut self, value: u16) {
            self.app(&value.to_be_bytes())
        }
        fn write_u32_be(&mut self, value: u32) {
            self.app(&value.to_be_bytes())
        }
        fn write_u64_be(&mut self, value: u64) {
            self.app(&value.to_be_bytes())
        }
    }

}
#[cfg(feature = "custom_writers")]
pub use wr::*;
